/-
  Non-interference for sandboxed rendering (two-run simulation).

  Two runtimes are related (`RelN n`) when they agree on all frames above their bottom `n` frames,
  that common top part contains a sandboxed frame and a global frame, and the bottom `n` frames
  have the same kinds and equal counter frames (everything else down there may differ).
  `NI2 n m1 m2`: started in related runtimes with the same sink, `m1` and `m2` return the same
  result, write the same output and end in related runtimes.  `renderN_ni`: every template is
  related to itself — what runs inside a sandbox is a function of the frames above the sandbox and
  of the counters alone; nothing else of the caller can influence it.
-/
import LiquidModel.Lemmas.Shape
namespace Liquid.NI
open Liquid

def isSb : Layer → Bool | .sandbox _ _ => true | _ => false
def isGl : Layer → Bool | .global _ => true | _ => false

/-- bottom frames: same kind, and counter frames hold the same counters -/
def relLayer (a b : Layer) : Prop :=
  a.kind = b.kind ∧ ∀ c1 c2, a = .index c1 → b = .index c2 → c1 = c2

def relBelow : Stack → Stack → Prop
  | [], [] => True
  | x :: a, y :: b => relLayer x y ∧ relBelow a b
  | _, _ => False

theorem relLayer_refl (l : Layer) : relLayer l l :=
  ⟨rfl, fun c1 c2 h1 h2 => by rw [h1] at h2; cases h2; rfl⟩

theorem relBelow_refl : ∀ s, relBelow s s
  | [] => trivial
  | l :: r => ⟨relLayer_refl l, relBelow_refl r⟩

theorem relBelow_length : ∀ a b, relBelow a b → a.length = b.length
  | [], [], _ => rfl
  | [], _ :: _, h => by simp [relBelow] at h
  | _ :: _, [], h => by simp [relBelow] at h
  | _ :: a, _ :: b, h => by simp [relBelow_length a b h.2]

theorem relBelow_shape : ∀ a b, relBelow a b → a.shape = b.shape
  | [], [], _ => rfl
  | [], _ :: _, h => by simp [relBelow] at h
  | _ :: _, [], h => by simp [relBelow] at h
  | x :: a, y :: b, h => by
    have := relBelow_shape a b h.2
    simp only [Stack.shape, List.map_cons] at this ⊢
    rw [this, h.1.1]

/-- the common top part must contain a sandboxed frame (lookups and registers stop there) and a
global frame (assignments stop there) -/
def good (pre : Stack) : Prop := pre.any isSb = true ∧ pre.any isGl = true

theorem isSb_kind (l : Layer) : isSb l = (l.kind == 1) := by cases l <;> rfl
theorem isGl_kind (l : Layer) : isGl l = (l.kind == 2) := by cases l <;> rfl

theorem good_of_shape (a b : Stack) (h : a.shape = b.shape) (hg : good a) : good b := by
  have key : ∀ (f : Layer → Bool) (g : Nat → Bool), (∀ l, f l = g l.kind) → a.any f = b.any f := by
    intro f g hfg
    have e1 : ∀ s : Stack, s.any f = s.shape.any g := by
      intro s; induction s with
      | nil => rfl
      | cons l r ih => simp [Stack.shape, List.any_cons, hfg] at ih ⊢; simp [Stack.shape, ih]
    rw [e1 a, e1 b, h]
  exact ⟨by rw [← key isSb (· == 1) isSb_kind]; exact hg.1, by rw [← key isGl (· == 2) isGl_kind]; exact hg.2⟩

def RelN (n : Nat) (s1 s2 : Stack) : Prop :=
  ∃ pre b1 b2, s1 = pre ++ b1 ∧ s2 = pre ++ b2 ∧ b1.length = n ∧ good pre ∧ relBelow b1 b2

/-! ### what the evaluators can see is the same in related stacks -/

theorem get_low (pre : Stack) (h : pre.any isSb = true) (b1 b2 : Stack) (p : List Sc) :
    (pre ++ b1).get p = (pre ++ b2).get p := by
  induction pre with
  | nil => simp at h
  | cons l r ih =>
    simp only [List.cons_append, Stack.get]
    cases pathKey p with
    | none => rfl
    | some k =>
      cases l with
      | sandbox d q => rfl
      | plain d => simp only []; split; rfl; exact ih (by simpa [isSb] using h)
      | global d => simp only []; split; rfl; exact ih (by simpa [isSb] using h)
      | index d => simp only []; split; rfl; exact ih (by simpa [isSb] using h)

theorem tryGet_low (pre : Stack) (h : pre.any isSb = true) (b1 b2 : Stack) (p : List Sc) :
    (pre ++ b1).tryGet p = (pre ++ b2).tryGet p := by
  induction pre with
  | nil => simp at h
  | cons l r ih =>
    simp only [List.cons_append, Stack.tryGet]
    cases pathKey p with
    | none => rfl
    | some k =>
      cases l with
      | sandbox d q => rfl
      | plain d => simp only []; split; rfl; exact ih (by simpa [isSb] using h)
      | global d => simp only []; split; rfl; exact ih (by simpa [isSb] using h)
      | index d => simp only []; split; rfl; exact ih (by simpa [isSb] using h)

theorem getIndex_below : ∀ (b1 b2 : Stack), relBelow b1 b2 → ∀ k, b1.getIndex k = b2.getIndex k
  | [], [], _, _ => rfl
  | [], _ :: _, h, _ => by simp [relBelow] at h
  | _ :: _, [], h, _ => by simp [relBelow] at h
  | x :: a, y :: b, h, k => by
    have ih := getIndex_below a b h.2 k
    obtain ⟨hk, hc⟩ := h.1
    cases x <;> cases y <;> simp [Layer.kind] at hk <;> simp only [Stack.getIndex, ih]
    rename_i c1 c2
    rw [hc c1 c2 rfl rfl]

theorem getIndex_low (pre b1 b2 : Stack) (h : relBelow b1 b2) (k : Str) :
    (pre ++ b1).getIndex k = (pre ++ b2).getIndex k := by
  induction pre with
  | nil => exact getIndex_below b1 b2 h k
  | cons l r ih => cases l <;> simp [Stack.getIndex, ih]

theorem regs_low (pre : Stack) (h : pre.any isSb = true) (b1 b2 : Stack) (c1 c2 : Regs) :
    (pre ++ b1).regs c1 = (pre ++ b2).regs c2 := by
  induction pre with
  | nil => simp at h
  | cons l r ih =>
    cases l with
    | sandbox d q => rfl
    | plain d => simpa [Stack.regs] using ih (by simpa [isSb] using h)
    | global d => simpa [Stack.regs] using ih (by simpa [isSb] using h)
    | index d => simpa [Stack.regs] using ih (by simpa [isSb] using h)

theorem setRegs_low (pre : Stack) (h : pre.any isSb = true) (g : Regs) :
    ∃ pre', pre'.shape = pre.shape ∧ ∀ (b : Stack) (c : Regs), (pre ++ b).setRegs c g = (pre' ++ b, c) := by
  induction pre with
  | nil => simp at h
  | cons l r ih =>
    cases l with
    | sandbox d q => exact ⟨.sandbox d g :: r, by simp [Stack.shape, Layer.kind], fun b c => by simp [Stack.setRegs]⟩
    | plain d =>
      obtain ⟨p', hs, hp⟩ := ih (by simpa [isSb] using h)
      exact ⟨.plain d :: p', by simp [Stack.shape] at hs ⊢; exact hs, fun b c => by simp [Stack.setRegs, hp]⟩
    | global d =>
      obtain ⟨p', hs, hp⟩ := ih (by simpa [isSb] using h)
      exact ⟨.global d :: p', by simp [Stack.shape] at hs ⊢; exact hs, fun b c => by simp [Stack.setRegs, hp]⟩
    | index d =>
      obtain ⟨p', hs, hp⟩ := ih (by simpa [isSb] using h)
      exact ⟨.index d :: p', by simp [Stack.shape] at hs ⊢; exact hs, fun b c => by simp [Stack.setRegs, hp]⟩

theorem setGlobal_low (pre : Stack) (h : pre.any isGl = true) (k : Str) (v : V) :
    ∃ pre', pre'.shape = pre.shape ∧ ∀ b : Stack, (pre ++ b).setGlobal k v = .ok (pre' ++ b) := by
  induction pre with
  | nil => simp at h
  | cons l r ih =>
    cases l with
    | global d => exact ⟨.global (objInsert d k v) :: r, by simp [Stack.shape, Layer.kind], fun b => by simp [Stack.setGlobal]⟩
    | plain d =>
      obtain ⟨p', hs, hp⟩ := ih (by simpa [isGl] using h)
      exact ⟨.plain d :: p', by simp [Stack.shape] at hs ⊢; exact hs,
        fun b => by simp [Stack.setGlobal, hp, bind, Res.bind, pure]⟩
    | sandbox d q =>
      obtain ⟨p', hs, hp⟩ := ih (by simpa [isGl] using h)
      exact ⟨.sandbox d q :: p', by simp [Stack.shape] at hs ⊢; exact hs,
        fun b => by simp [Stack.setGlobal, hp, bind, Res.bind, pure]⟩
    | index d =>
      obtain ⟨p', hs, hp⟩ := ih (by simpa [isGl] using h)
      exact ⟨.index d :: p', by simp [Stack.shape] at hs ⊢; exact hs,
        fun b => by simp [Stack.setGlobal, hp, bind, Res.bind, pure]⟩

/-- the outcome of `set_index` on the bottom parts: both succeed with related results, or both hit
the same panic site -/
theorem setIndex_below : ∀ (b1 b2 : Stack), relBelow b1 b2 → ∀ (k : Str) (v : V),
    (∃ b1' b2', b1.setIndex k v = .ok b1' ∧ b2.setIndex k v = .ok b2' ∧ b1'.length = b1.length ∧ relBelow b1' b2')
    ∨ (∃ s, b1.setIndex k v = .panic s ∧ b2.setIndex k v = .panic s)
  | [], [], _, _, _ => .inr ⟨_, rfl, rfl⟩
  | [], _ :: _, h, _, _ => by simp [relBelow] at h
  | _ :: _, [], h, _, _ => by simp [relBelow] at h
  | x :: a, y :: b, h, k, v => by
    obtain ⟨hk, hc⟩ := h.1
    have ih := setIndex_below a b h.2 k v
    have step : ∀ (x y : Layer), relLayer x y → (∀ c, x ≠ .index c) → (∀ c, y ≠ .index c) →
        Stack.setIndex (x :: a) k v = (do let r' ← Stack.setIndex a k v; pure (x :: r')) ∧
        Stack.setIndex (y :: b) k v = (do let r' ← Stack.setIndex b k v; pure (y :: r')) := by
      intro x y _ hx hy
      constructor
      · cases x <;> first | rfl | exact absurd rfl (hx _)
      · cases y <;> first | rfl | exact absurd rfl (hy _)
    by_cases hxi : ∃ c, x = .index c
    · obtain ⟨c1, rfl⟩ := hxi
      cases y <;> simp [Layer.kind] at hk
      rename_i c2
      have : c1 = c2 := hc c1 c2 rfl rfl
      subst this
      exact .inl ⟨.index (objInsert c1 k v) :: a, .index (objInsert c1 k v) :: b, rfl, rfl, rfl,
        relLayer_refl _, h.2⟩
    · have hx : ∀ c, x ≠ .index c := fun c hc' => hxi ⟨c, hc'⟩
      have hy : ∀ c, y ≠ .index c := by
        intro c hc'; subst hc'; cases x <;> simp [Layer.kind] at hk; exact hx _ rfl
      obtain ⟨e1, e2⟩ := step x y h.1 hx hy
      rcases ih with ⟨a', b', ha, hb, hl, hr⟩ | ⟨s, ha, hb⟩
      · refine .inl ⟨x :: a', y :: b', by simp [e1, ha, bind, Res.bind, pure], by simp [e2, hb, bind, Res.bind, pure],
          by simp [hl], ⟨⟨hk, hc⟩, hr⟩⟩
      · exact .inr ⟨s, by simp [e1, ha, bind, Res.bind], by simp [e2, hb, bind, Res.bind]⟩

theorem setIndex_low (pre b1 b2 : Stack) (h : relBelow b1 b2) (k : Str) (v : V) :
    (∃ pre' b1' b2', (pre ++ b1).setIndex k v = .ok (pre' ++ b1') ∧ (pre ++ b2).setIndex k v = .ok (pre' ++ b2') ∧
        pre'.shape = pre.shape ∧ b1'.length = b1.length ∧ relBelow b1' b2')
    ∨ (∃ s, (pre ++ b1).setIndex k v = .panic s ∧ (pre ++ b2).setIndex k v = .panic s) := by
  induction pre with
  | nil =>
    rcases setIndex_below b1 b2 h k v with ⟨a', b', ha, hb, hl, hr⟩ | ⟨s, ha, hb⟩
    · exact .inl ⟨[], a', b', by simpa using ha, by simpa using hb, rfl, hl, hr⟩
    · exact .inr ⟨s, by simpa using ha, by simpa using hb⟩
  | cons l r ih =>
    cases l with
    | index c =>
      exact .inl ⟨.index (objInsert c k v) :: r, b1, b2, by simp [Stack.setIndex], by simp [Stack.setIndex],
        by simp [Stack.shape, Layer.kind], rfl, h⟩
    | plain d =>
      rcases ih with ⟨p', a', b', ha, hb, hs, hl, hr⟩ | ⟨s, ha, hb⟩
      · exact .inl ⟨.plain d :: p', a', b', by simp [Stack.setIndex, ha, bind, Res.bind, pure],
          by simp [Stack.setIndex, hb, bind, Res.bind, pure], by simp [Stack.shape] at hs ⊢; exact hs, hl, hr⟩
      · exact .inr ⟨s, by simp [Stack.setIndex, ha, bind, Res.bind], by simp [Stack.setIndex, hb, bind, Res.bind]⟩
    | global d =>
      rcases ih with ⟨p', a', b', ha, hb, hs, hl, hr⟩ | ⟨s, ha, hb⟩
      · exact .inl ⟨.global d :: p', a', b', by simp [Stack.setIndex, ha, bind, Res.bind, pure],
          by simp [Stack.setIndex, hb, bind, Res.bind, pure], by simp [Stack.shape] at hs ⊢; exact hs, hl, hr⟩
      · exact .inr ⟨s, by simp [Stack.setIndex, ha, bind, Res.bind], by simp [Stack.setIndex, hb, bind, Res.bind]⟩
    | sandbox d q =>
      rcases ih with ⟨p', a', b', ha, hb, hs, hl, hr⟩ | ⟨s, ha, hb⟩
      · exact .inl ⟨.sandbox d q :: p', a', b', by simp [Stack.setIndex, ha, bind, Res.bind, pure],
          by simp [Stack.setIndex, hb, bind, Res.bind, pure], by simp [Stack.shape] at hs ⊢; exact hs, hl, hr⟩
      · exact .inr ⟨s, by simp [Stack.setIndex, ha, bind, Res.bind], by simp [Stack.setIndex, hb, bind, Res.bind]⟩

/-- related stacks look the same to every evaluator -/
structure SameView (s1 s2 : Stack) : Prop where
  get : ∀ p, s1.get p = s2.get p
  tryGet : ∀ p, s1.tryGet p = s2.tryGet p
  idx : ∀ k, s1.getIndex k = s2.getIndex k

theorem RelN.view {n : Nat} {s1 s2 : Stack} (h : RelN n s1 s2) : SameView s1 s2 := by
  obtain ⟨pre, b1, b2, rfl, rfl, _, hg, hb⟩ := h
  exact ⟨get_low pre hg.1 b1 b2, tryGet_low pre hg.1 b1 b2, getIndex_low pre b1 b2 hb⟩

section evaluators
variable {s1 s2 : Stack} (h : SameView s1 s2)
include h

mutual
theorem eval_low : ∀ e : Expr, e.eval s1 = e.eval s2
  | .lit v => by simp [Expr.eval]
  | .var root idx => by
    simp only [Expr.eval]
    rw [evalIdx_low idx]
    cases evalIdx s2 idx <;> simp [h.get]
theorem evalIdx_low : ∀ es : List Expr, evalIdx s1 es = evalIdx s2 es
  | [] => by simp [evalIdx]
  | e :: r => by
    simp only [evalIdx]
    rw [eval_low e, evalIdx_low r]
end

mutual
theorem tryEval_low : ∀ e : Expr, e.tryEval s1 = e.tryEval s2
  | .lit v => by simp [Expr.tryEval]
  | .var root idx => by
    simp only [Expr.tryEval]
    rw [tryEvalIdx_low idx]
    cases tryEvalIdx s2 idx <;> simp [h.tryGet]
theorem tryEvalIdx_low : ∀ es : List Expr, tryEvalIdx s1 es = tryEvalIdx s2 es
  | [] => by simp [tryEvalIdx]
  | e :: r => by
    simp only [tryEvalIdx]
    rw [tryEval_low e, tryEvalIdx_low r]
end

theorem cond_low : ∀ c : Cond, c.eval s1 = c.eval s2
  | .bin l op r => by simp only [Cond.eval]; rw [eval_low h l, eval_low h r]
  | .exist e => by simp only [Cond.eval]; rw [tryEval_low h e]
  | .and a b => by simp only [Cond.eval]; rw [cond_low a, cond_low b]
  | .or a b => by simp only [Cond.eval]; rw [cond_low a, cond_low b]

theorem intArg_low (e : Expr) : intArg s1 e = intArg s2 e := by
  simp only [intArg]; rw [eval_low h e]

theorem range_low (r : RangeE) : r.eval s1 = r.eval s2 := by
  cases r with
  | arr e => simp only [RangeE.eval]; rw [eval_low h e]
  | counted a b => simp only [RangeE.eval]; rw [intArg_low h a, intArg_low h b]

theorem attr_low (o : Option Expr) : evalAttr s1 o = evalAttr s2 o := by
  cases o with
  | none => rfl
  | some e => simp only [evalAttr]; rw [eval_low h e]

theorem args_low : ∀ es : List Expr, evalArgs s1 es = evalArgs s2 es
  | [] => rfl
  | e :: r => by simp only [evalArgs]; rw [eval_low h e, args_low r]

theorem chain_low (env : Env) (e : Expr) (fs : List FCall) : evalChain env s1 e fs = evalChain env s2 e fs := by
  have : evalArgs s1 = evalArgs s2 := funext (args_low h)
  simp only [evalChain, eval_low h e, this]

theorem vars_low : ∀ (vs : List (Str × Expr)) (acc : Obj), evalVars s1 vs acc = evalVars s2 vs acc
  | [], _ => rfl
  | (k, e) :: r, acc => by
    simp only [evalVars]; rw [tryEval_low h e]
    cases e.tryEval s2 with
    | none => rfl
    | some v => exact vars_low r _

theorem anyEq_low (value : V) : ∀ es : List Expr, anyEqArgs s1 value es = anyEqArgs s2 value es
  | [] => rfl
  | a :: r => by
    simp only [anyEqArgs]; rw [eval_low h a]
    cases a.eval s2 with
    | ok v => simp only []; split; rfl; exact anyEq_low value r
    | _ => rfl

theorem casePick_low (value : V) : ∀ arms, casePick s1 value arms = casePick s2 value arms
  | [] => rfl
  | (args, body) :: r => by
    simp only [casePick]; rw [anyEq_low h value args, casePick_low value r]

theorem counter_low (x : Str) : counterVal s1 x = counterVal s2 x := by
  simp only [counterVal]; rw [h.idx x]

end evaluators

/-! ### the two-run logic -/

/-- outcomes of two related runs -/
structure Out (n : Nat) {α : Type} (rt1 rt2 : Rt) (o1 o2 : Res α × Rt × W) : Prop where
  res : o1.1 = o2.1
  out : o1.2.2 = o2.2.2
  rel : RelN n o1.2.1.layers o2.2.1.layers
  sh1 : o1.2.1.layers.shape = rt1.layers.shape
  sh2 : o2.2.1.layers.shape = rt2.layers.shape

def NI2 (n : Nat) {α : Type} (m1 m2 : M α) : Prop :=
  ∀ rt1 rt2 w, RelN n rt1.layers rt2.layers → Out n rt1 rt2 (m1 rt1 w) (m2 rt2 w)

namespace NI2
variable {n : Nat}

theorem pure {α} (a : α) : NI2 n (Pure.pure a : M α) (Pure.pure a) :=
  fun _ _ _ h => ⟨rfl, rfl, h, rfl, rfl⟩

theorem lift_eq {α} {r1 r2 : Res α} (e : r1 = r2) : NI2 n (M.lift r1) (M.lift r2) :=
  fun _ _ _ h => ⟨e, rfl, h, rfl, rfl⟩

theorem lift {α} (r : Res α) : NI2 n (M.lift r) (M.lift r) := lift_eq rfl

theorem emit (s : Str) : NI2 n (M.emit s) (M.emit s) := by
  intro rt1 rt2 w h
  unfold M.emit
  cases w.write s <;> exact ⟨rfl, rfl, h, rfl, rfl⟩

theorem regs_eq {rt1 rt2 : Rt} (h : RelN n rt1.layers rt2.layers) : rt1.regs = rt2.regs := by
  obtain ⟨pre, b1, b2, e1, e2, _, hg, _⟩ := h
  simp only [Rt.regs, e1, e2]
  exact regs_low pre hg.1 b1 b2 _ _

theorem getRegs : NI2 n M.getRegs M.getRegs :=
  fun _ _ _ h => ⟨by simp [M.getRegs, regs_eq h], rfl, h, rfl, rfl⟩

theorem setRegs (g : Regs) : NI2 n (M.setRegs g) (M.setRegs g) := by
  intro rt1 rt2 w h
  obtain ⟨pre, b1, b2, e1, e2, hl, hg, hb⟩ := h
  obtain ⟨pre', hs, hp⟩ := setRegs_low pre hg.1 g
  have r1 : (rt1.setRegs g).layers = pre' ++ b1 := by simp [Rt.setRegs, e1, hp]
  have r2 : (rt2.setRegs g).layers = pre' ++ b2 := by simp [Rt.setRegs, e2, hp]
  refine ⟨rfl, rfl, ?_, ?_, ?_⟩
  · exact ⟨pre', b1, b2, r1, r2, hl, good_of_shape _ _ hs.symm hg, hb⟩
  · show (rt1.setRegs g).layers.shape = _
    rw [r1, e1]; simp [Stack.shape, List.map_append] at hs ⊢; exact hs
  · show (rt2.setRegs g).layers.shape = _
    rw [r2, e2]; simp [Stack.shape, List.map_append] at hs ⊢; exact hs

theorem bind {α β} {m1 m2 : M α} {f1 f2 : α → M β} (hm : NI2 n m1 m2) (hf : ∀ a, NI2 n (f1 a) (f2 a)) :
    NI2 n (m1 >>= f1) (m2 >>= f2) := by
  intro rt1 rt2 w h
  have o := hm rt1 rt2 w h
  rw [M.run_bind, M.run_bind]
  rcases h1 : m1 rt1 w with ⟨r1, rt1', w1⟩
  rcases h2 : m2 rt2 w with ⟨r2, rt2', w2⟩
  rw [h1, h2] at o
  obtain ⟨hr, hw, hrel, hs1, hs2⟩ := o
  simp only at hr hw hrel hs1 hs2
  subst hr; subst hw
  cases r1 with
  | ok a =>
    have o' := hf a rt1' rt2' w1 hrel
    exact ⟨o'.res, o'.out, o'.rel, o'.sh1.trans hs1, o'.sh2.trans hs2⟩
  | err => exact ⟨rfl, rfl, hrel, hs1, hs2⟩
  | io => exact ⟨rfl, rfl, hrel, hs1, hs2⟩
  | fuel => exact ⟨rfl, rfl, hrel, hs1, hs2⟩
  | panic s => exact ⟨rfl, rfl, hrel, hs1, hs2⟩

/-- reading the stack: the continuations may be given stacks that look the same -/
theorem getSt_bind {β} {k1 k2 : Stack → M β}
    (hk : ∀ s1 s2, SameView s1 s2 → NI2 n (k1 s1) (k2 s2)) : NI2 n (M.getSt >>= k1) (M.getSt >>= k2) := by
  intro rt1 rt2 w h
  exact hk rt1.layers rt2.layers h.view rt1 rt2 w h

theorem setGlobalM (x : Str) (v : V) : NI2 n (setGlobalM x v) (setGlobalM x v) := by
  intro rt1 rt2 w h
  obtain ⟨pre, b1, b2, e1, e2, hl, hg, hb⟩ := h
  obtain ⟨pre', hs, hp⟩ := setGlobal_low pre hg.2 x v
  have hsh : ∀ b : Stack, (pre' ++ b).shape = (pre ++ b).shape := by
    intro b; simp [Stack.shape, List.map_append] at hs ⊢; exact hs
  refine ⟨?_, ?_, ?_, ?_, ?_⟩ <;>
    simp only [Liquid.setGlobalM, M.run_bind, M.run_getSt, M.run_lift, e1, e2, hp, M.run_setLayers]
  · exact ⟨pre', b1, b2, rfl, rfl, hl, good_of_shape _ _ hs.symm hg, hb⟩
  · exact hsh b1
  · exact hsh b2

theorem setIndexM (x : Str) (v : V) : NI2 n (setIndexM x v) (setIndexM x v) := by
  intro rt1 rt2 w h
  obtain ⟨pre, b1, b2, e1, e2, hl, hg, hb⟩ := h
  rcases setIndex_low pre b1 b2 hb x v with ⟨pre', b1', b2', h1, h2, hs, hl', hr⟩ | ⟨s, h1, h2⟩
  · have s1 := setIndex_shape _ _ x v h1
    have s2 := setIndex_shape _ _ x v h2
    refine ⟨?_, ?_, ?_, ?_, ?_⟩ <;>
      simp only [Liquid.setIndexM, M.run_bind, M.run_getSt, M.run_lift, e1, e2, h1, h2, M.run_setLayers]
    · exact ⟨pre', b1', b2', rfl, rfl, hl'.trans hl, good_of_shape _ _ hs.symm hg, hr⟩
    · exact s1
    · exact s2
  · refine ⟨?_, ?_, ?_, ?_, ?_⟩ <;>
      simp only [Liquid.setIndexM, M.run_bind, M.run_getSt, M.run_lift, e1, e2, h1, h2]
    exact ⟨pre, b1, b2, rfl, rfl, hl, hg, hb⟩

end NI2


syntax "ni_step" : tactic
macro_rules
  | `(tactic| ni_step) => `(tactic| first
    | exact NI2.pure _
    | exact NI2.emit _
    | exact NI2.lift _
    | exact NI2.getRegs
    | exact NI2.setRegs _
    | exact NI2.setGlobalM _ _
    | exact NI2.setIndexM _ _
    | refine NI2.bind ?_ (fun _ => ?_)
    | split
    | dsimp only)

theorem good_append (ls pre : Stack) (h : good pre) : good (ls ++ pre) :=
  ⟨by simp [List.any_append, h.1], by simp [List.any_append, h.2]⟩

namespace NI2
variable {n : Nat}

theorem capture {m1 m2 : M Unit} (hm : NI2 n m1 m2) : NI2 n (M.capture m1) (M.capture m2) := by
  intro rt1 rt2 w h
  have o := hm rt1 rt2 {} h
  unfold M.capture
  rcases h1 : m1 rt1 {} with ⟨r1, rt1', w1⟩
  rcases h2 : m2 rt2 {} with ⟨r2, rt2', w2⟩
  rw [h1, h2] at o
  obtain ⟨hr, hw, hrel, hs1, hs2⟩ := o
  simp only at hr hw hrel hs1 hs2
  subst hr; subst hw
  cases r1 <;> exact ⟨rfl, rfl, hrel, hs1, hs2⟩

theorem inFrames {α} (ls : List Layer) {m1 m2 : M α} (hm : NI2 n m1 m2) :
    NI2 n (M.inFrames ls m1) (M.inFrames ls m2) := by
  intro rt1 rt2 w h
  obtain ⟨pre, b1, b2, e1, e2, hl, hg, hb⟩ := h
  have hl2 : b2.length = n := by rw [← relBelow_length b1 b2 hb]; exact hl
  have hrel' : RelN n ({ rt1 with layers := ls ++ rt1.layers } : Rt).layers
      ({ rt2 with layers := ls ++ rt2.layers } : Rt).layers :=
    ⟨ls ++ pre, b1, b2, by simp [e1], by simp [e2], hl, good_append ls pre hg, hb⟩
  have o := hm _ _ w hrel'
  unfold M.inFrames
  rcases h1 : m1 { rt1 with layers := ls ++ rt1.layers } w with ⟨r1, rt1', w1⟩
  rcases h2 : m2 { rt2 with layers := ls ++ rt2.layers } w with ⟨r2, rt2', w2⟩
  rw [h1, h2] at o
  obtain ⟨hr, hw, ⟨pre', b1', b2', e1', e2', hl', hg', hb'⟩, hs1, hs2⟩ := o
  simp only at hr hw e1' e2' hs1 hs2
  have hl2' : b2'.length = n := by rw [← relBelow_length b1' b2' hb']; exact hl'
  -- the common top part of the result is as long as before plus the pushed frames
  have hlen : pre'.length = ls.length + pre.length := by
    have := congrArg List.length hs1
    simp only [Stack.shape, List.length_map, e1', e1, List.length_append] at this
    omega
  have hpre : pre'.shape = Stack.shape (ls ++ pre) := by
    have := hs1
    rw [e1', e1] at this
    simp only [Stack.shape, List.map_append] at this ⊢
    have hh := List.append_inj_left (s₁ := pre'.map Layer.kind) (t₁ := b1'.map Layer.kind)
      (s₂ := ls.map Layer.kind ++ pre.map Layer.kind) (t₂ := b1.map Layer.kind)
      (by simpa [List.append_assoc] using this) (by simp [hlen])
    exact hh
  have hdrop : Stack.shape (pre'.drop ls.length) = pre.shape := by
    simp only [Stack.shape] at hpre ⊢
    rw [List.map_drop, hpre]; simp
  have hle : ls.length ≤ pre'.length := by omega
  refine ⟨hr, hw, ⟨pre'.drop ls.length, b1', b2', ?_, ?_, hl', good_of_shape _ _ hdrop.symm hg, hb'⟩, ?_, ?_⟩
  · show rt1'.layers.drop ls.length = _
    rw [e1', List.drop_append_of_le_length hle]
  · show rt2'.layers.drop ls.length = _
    rw [e2', List.drop_append_of_le_length hle]
  · show Stack.shape (rt1'.layers.drop ls.length) = _
    simp only [Stack.shape] at hs1 ⊢
    rw [List.map_drop, hs1]; simp
  · show Stack.shape (rt2'.layers.drop ls.length) = _
    simp only [Stack.shape] at hs2 ⊢
    rw [List.map_drop, hs2]; simp

theorem setInterruptM (i : Option Intr) : NI2 n (setInterruptM i) (setInterruptM i) :=
  bind getRegs (fun _ => setRegs _)

theorem takeInterruptM : NI2 n takeInterruptM takeInterruptM :=
  bind getRegs (fun _ => bind (setRegs _) (fun _ => pure _))

theorem renderList {f1 f2 : Node → M Unit} (hf : ∀ nd, NI2 n (f1 nd) (f2 nd)) :
    ∀ t, NI2 n (Liquid.renderList f1 t) (Liquid.renderList f2 t)
  | [] => pure ()
  | nd :: r => by
    unfold Liquid.renderList
    refine bind (hf nd) (fun _ => bind getRegs (fun g => ?_))
    split
    · exact pure ()
    · exact renderList hf r

theorem loopItems {s1 s2 : V → Nat → M (Option Intr)} (hs : ∀ v i, NI2 n (s1 v i) (s2 v i)) :
    ∀ items i, NI2 n (Liquid.loopItems s1 items i) (Liquid.loopItems s2 items i)
  | [], _ => pure ()
  | v :: r, i => by
    unfold Liquid.loopItems
    refine bind (hs v i) (fun intr => ?_)
    split
    · exact pure ()
    · exact loopItems hs r (i + 1)

theorem tableItems {s1 s2 : V → Nat → M Unit} (hs : ∀ v i, NI2 n (s1 v i) (s2 v i)) :
    ∀ items i, NI2 n (Liquid.tableItems s1 items i) (Liquid.tableItems s2 items i)
  | [], _ => pure ()
  | v :: r, i => by
    unfold Liquid.tableItems
    exact bind (hs v i) (fun _ => tableItems hs r (i + 1))

theorem forStep (x : Str) (len : Nat) (parent : V) {b1 b2 : M Unit} (hb : NI2 n b1 b2) (v : V) (i : Nat) :
    NI2 n (forStep x len parent b1 v i) (forStep x len parent b2 v i) :=
  inFrames _ (bind hb (fun _ => takeInterruptM))

theorem tablerowStep (x : Str) (len ncols : Nat) {b1 b2 : M Unit} (hb : NI2 n b1 b2) (v : V) (i : Nat) :
    NI2 n (tablerowStep x len ncols b1 v i) (tablerowStep x len ncols b2 v i) := by
  unfold Liquid.tablerowStep
  repeat (first | exact inFrames _ hb | ni_step)

theorem renderForStep {st1 st2 : Stack} (hv : SameView st1 st2) (args : List (Str × Expr)) (as_ : Str) (len : Nat)
    {b1 b2 : M Unit} (hb : NI2 n b1 b2) (v : V) (i : Nat) :
    NI2 n (renderForStep st1 args as_ len b1 v i) (renderForStep st2 args as_ len b2 v i) :=
  bind (lift_eq (vars_low hv args [])) (fun _ => inFrames _ (bind hb (fun _ => takeInterruptM)))

end NI2

/-- **Every template is related to itself**: run in two related runtimes, it returns the same
result, writes the same output and leaves related runtimes. -/
theorem renderN_ni (env : Env) (n : Nat) : ∀ fuel nd, NI2 n (renderN fuel env nd) (renderN fuel env nd)
  | 0, nd => by rw [Liquid.renderN]; exact NI2.lift _
  | fuel + 1, nd => by
    have ih := renderN_ni env n fuel
    have body : ∀ t, NI2 n (Liquid.renderList (Liquid.renderN fuel env) t) (Liquid.renderList (Liquid.renderN fuel env) t) :=
      fun t => NI2.renderList ih t
    cases nd with
    | text s => rw [Liquid.renderN]; exact NI2.emit _
    | raw s => rw [Liquid.renderN]; exact NI2.emit _
    | comment => rw [Liquid.renderN]; exact NI2.pure _
    | brk => rw [Liquid.renderN]; exact NI2.setInterruptM _
    | cont => rw [Liquid.renderN]; exact NI2.setInterruptM _
    | output e fs =>
      rw [Liquid.renderN]
      exact NI2.getSt_bind (fun s1 s2 hv => NI2.bind (NI2.lift_eq (chain_low hv env e fs)) (fun v => NI2.emit _))
    | assign x e fs =>
      rw [Liquid.renderN]
      exact NI2.getSt_bind (fun s1 s2 hv => NI2.bind (NI2.lift_eq (chain_low hv env e fs)) (fun v => NI2.setGlobalM _ _))
    | capture x b =>
      rw [Liquid.renderN]
      exact NI2.bind (NI2.capture (body b)) (fun s => NI2.setGlobalM _ _)
    | incr x =>
      rw [Liquid.renderN]
      refine NI2.getSt_bind (fun s1 s2 hv => ?_)
      rw [counter_low hv x]
      repeat ni_step
    | decr x =>
      rw [Liquid.renderN]
      refine NI2.getSt_bind (fun s1 s2 hv => ?_)
      rw [counter_low hv x]
      repeat ni_step
    | cycle name vals =>
      rw [Liquid.renderN]
      refine NI2.bind NI2.getRegs (fun g => ?_)
      split
      · exact NI2.lift _
      · refine NI2.bind (NI2.setRegs _) (fun _ => ?_)
        split
        · exact NI2.lift _
        · rename_i e _
          exact NI2.getSt_bind (fun s1 s2 hv => NI2.bind (NI2.lift_eq (eval_low hv e)) (fun v => NI2.emit _))
    | cond c mode thn els =>
      (first | rw [Liquid.renderN] | simp only [Liquid.renderN])
      refine NI2.getSt_bind (fun s1 s2 hv => NI2.bind (NI2.lift_eq (cond_low hv c)) (fun b => ?_))
      split
      · exact body thn
      · split
        · exact body _
        · exact NI2.pure _
    | case_ target arms els =>
      (first | rw [Liquid.renderN] | simp only [Liquid.renderN])
      refine NI2.getSt_bind (fun s1 s2 hv => NI2.bind (NI2.lift_eq (eval_low hv target)) (fun value =>
        NI2.bind (NI2.lift_eq (casePick_low hv value arms)) (fun pick => ?_)))
      split
      · exact body _
      · split
        · exact body _
        · exact NI2.pure _
    | for_ x rng limit offset rev b els =>
      (first | rw [Liquid.renderN] | simp only [Liquid.renderN])
      refine NI2.getSt_bind (fun s1 s2 hv => NI2.bind (NI2.lift_eq (range_low hv rng)) (fun arr =>
        NI2.bind (NI2.lift_eq (attr_low hv limit)) (fun lim =>
        NI2.bind (NI2.lift_eq (attr_low hv offset)) (fun off => ?_))))
      split
      · split
        · exact body _
        · exact NI2.pure _
      · rw [hv.tryGet]
        exact NI2.loopItems (fun v i => NI2.forStep _ _ _ (body b) v i) _ _
    | tablerow x rng cols limit offset b =>
      rw [Liquid.renderN]
      refine NI2.getSt_bind (fun s1 s2 hv => NI2.bind (NI2.lift_eq (range_low hv rng)) (fun arr =>
        NI2.bind (NI2.lift_eq (attr_low hv cols)) (fun c => ?_)))
      split
      · exact NI2.lift _
      · refine NI2.bind (NI2.lift_eq (attr_low hv limit)) (fun lim =>
          NI2.bind (NI2.lift_eq (attr_low hv offset)) (fun off => ?_))
        exact NI2.tableItems (fun v i => NI2.tablerowStep _ _ _ (body b) v i) _ _
    | ifchanged b =>
      rw [Liquid.renderN]
      refine NI2.bind (NI2.capture (body b)) (fun s => ?_)
      repeat ni_step
    | include_ name args =>
      rw [Liquid.renderN]
      refine NI2.getSt_bind (fun s1 s2 hv => NI2.bind (NI2.lift_eq (eval_low hv name)) (fun v => ?_))
      split
      · exact NI2.bind (NI2.lift_eq (vars_low hv args [])) (fun pass =>
          NI2.bind (NI2.lift _) (fun t => NI2.inFrames _ (body t)))
      · exact NI2.lift _
    | render_ name form args =>
      rw [Liquid.renderN]
      refine NI2.getSt_bind (fun s1 s2 hv => NI2.bind (NI2.lift_eq (eval_low hv name)) (fun v => ?_))
      split
      · dsimp only
        split
        · refine NI2.bind (NI2.lift_eq (range_low hv _)) (fun items => ?_)
          exact NI2.loopItems (fun v i => NI2.renderForStep hv _ _ _
            (NI2.bind (NI2.lift _) (fun t => body t)) v i) _ _
        · exact NI2.bind (NI2.lift_eq (vars_low hv _ [])) (fun root =>
            NI2.bind (NI2.lift _) (fun t => NI2.inFrames _ (body t)))
      · exact NI2.lift _

/-! ### the caller's side: two arbitrary callers whose counters agree -/

/-- outcomes seen from two unrelated callers: same result, same output, counters still agree -/
def OutC {α : Type} (o1 o2 : Res α × Rt × W) : Prop :=
  o1.1 = o2.1 ∧ o1.2.2 = o2.2.2 ∧ relBelow o1.2.1.layers o2.2.1.layers

def NIc {α : Type} (m1 m2 : M α) : Prop :=
  ∀ rt1 rt2 w, relBelow rt1.layers rt2.layers → OutC (m1 rt1 w) (m2 rt2 w)

namespace NIc

theorem pure {α} (a : α) : NIc (Pure.pure a : M α) (Pure.pure a) := fun _ _ _ h => ⟨rfl, rfl, h⟩

theorem lift_eq {α} {r1 r2 : Res α} (e : r1 = r2) : NIc (M.lift r1) (M.lift r2) := fun _ _ _ h => ⟨e, rfl, h⟩

theorem bind {α β} {m1 m2 : M α} {f1 f2 : α → M β} (hm : NIc m1 m2) (hf : ∀ a, NIc (f1 a) (f2 a)) :
    NIc (m1 >>= f1) (m2 >>= f2) := by
  intro rt1 rt2 w h
  have o := hm rt1 rt2 w h
  rw [M.run_bind, M.run_bind]
  rcases h1 : m1 rt1 w with ⟨r1, rt1', w1⟩
  rcases h2 : m2 rt2 w with ⟨r2, rt2', w2⟩
  rw [h1, h2] at o
  obtain ⟨hr, hw, hrel⟩ := o
  simp only at hr hw hrel
  subst hr; subst hw
  cases r1 with
  | ok a => exact hf a rt1' rt2' w1 hrel
  | err => exact ⟨rfl, rfl, hrel⟩
  | io => exact ⟨rfl, rfl, hrel⟩
  | fuel => exact ⟨rfl, rfl, hrel⟩
  | panic s => exact ⟨rfl, rfl, hrel⟩

theorem loopItems {s1 s2 : V → Nat → M (Option Intr)} (hs : ∀ v i, NIc (s1 v i) (s2 v i)) :
    ∀ items i, NIc (Liquid.loopItems s1 items i) (Liquid.loopItems s2 items i)
  | [], _ => pure ()
  | v :: r, i => by
    unfold Liquid.loopItems
    refine bind (hs v i) (fun intr => ?_)
    split
    · exact pure ()
    · exact loopItems hs r (i + 1)

/-- entering a fresh global frame over a sandboxed frame from two arbitrary callers -/
theorem sandbox {α} (root : Obj) {m1 m2 : M α} (hm : ∀ n, NI2 n m1 m2) :
    NIc (M.inFrames [.global [], .sandbox root {}] m1) (M.inFrames [.global [], .sandbox root {}] m2) := by
  intro rt1 rt2 w hb
  have hrel' : RelN rt1.layers.length
      ({ rt1 with layers := [Layer.global [], Layer.sandbox root {}] ++ rt1.layers } : Rt).layers
      ({ rt2 with layers := [Layer.global [], Layer.sandbox root {}] ++ rt2.layers } : Rt).layers :=
    ⟨[.global [], .sandbox root {}], rt1.layers, rt2.layers, rfl, rfl, rfl, ⟨rfl, rfl⟩, hb⟩
  have o := hm _ _ _ w hrel'
  unfold M.inFrames
  rcases h1 : m1 { rt1 with layers := [Layer.global [], Layer.sandbox root {}] ++ rt1.layers } w with ⟨r1, rt1', w1⟩
  rcases h2 : m2 { rt2 with layers := [Layer.global [], Layer.sandbox root {}] ++ rt2.layers } w with ⟨r2, rt2', w2⟩
  rw [h1, h2] at o
  obtain ⟨hr, hw, ⟨pre', b1', b2', e1', e2', hl', hg', hb'⟩, hs1, hs2⟩ := o
  simp only at hr hw e1' e2' hs1 hs2
  have hlen : pre'.length = 2 := by
    have := congrArg List.length hs1
    simp only [Stack.shape, List.length_map, e1', List.length_append, List.length_cons, List.length_nil] at this
    omega
  refine ⟨hr, hw, ?_⟩
  show relBelow (rt1'.layers.drop 2) (rt2'.layers.drop 2)
  rw [e1', e2', List.drop_append_of_le_length (by omega), List.drop_append_of_le_length (by omega)]
  have : pre'.drop 2 = [] := List.drop_eq_nil_of_le (by omega)
  simpa [this] using hb'

end NIc

/-- **`render` from two arbitrary callers.** If the partial's name, its arguments (and, for the
`for` form, the collection) evaluate to the same values in two callers whose counter frames agree,
the tag returns the same result and writes the same output in both — whatever else the callers'
scopes contain — and their counters agree afterwards. -/
theorem render_ni (env : Env) (fuel : Nat) (name : Expr) (form : RForm) (args : List (Str × Expr))
    (rt1 rt2 : Rt) (w : W) (hb : relBelow rt1.layers rt2.layers)
    (hn : name.eval rt1.layers = name.eval rt2.layers)
    (ha : evalVars rt1.layers (form.vars args) [] = evalVars rt2.layers (form.vars args) [])
    (ha' : evalVars rt1.layers args [] = evalVars rt2.layers args [])
    (hr : ∀ rng as_, form = .for_ rng as_ → rng.eval rt1.layers = rng.eval rt2.layers) :
    OutC (renderN (fuel + 1) env (.render_ name form args) rt1 w)
         (renderN (fuel + 1) env (.render_ name form args) rt2 w) := by
  have body : ∀ t n, NI2 n (Liquid.renderList (Liquid.renderN fuel env) t) (Liquid.renderList (Liquid.renderN fuel env) t) :=
    fun t n => NI2.renderList (renderN_ni env n fuel) t
  rw [Liquid.renderN]
  simp only [M.run_bind, M.run_getSt]
  rw [hn]
  cases name.eval rt2.layers with
  | ok v =>
    simp only [M.run_lift]
    cases v with
    | sc s =>
      dsimp only
      cases form with
      | for_ rng as_ =>
        dsimp only
        have := hr rng as_ rfl
        refine NIc.bind (NIc.lift_eq this) (fun items => ?_) rt1 rt2 w hb
        refine NIc.loopItems (fun v i => ?_) _ _
        unfold Liquid.renderForStep
        refine NIc.bind (NIc.lift_eq ha') (fun root0 => NIc.sandbox _ (fun n => ?_))
        exact NI2.bind (NI2.bind (NI2.lift _) (fun t => body t n)) (fun _ => NI2.takeInterruptM)
      | plain =>
        dsimp only
        exact NIc.bind (NIc.lift_eq ha) (fun root => NIc.bind (NIc.lift_eq rfl)
          (fun t => NIc.sandbox _ (fun n => body t n))) rt1 rt2 w hb
      | with_ e as_ =>
        dsimp only
        exact NIc.bind (NIc.lift_eq ha) (fun root => NIc.bind (NIc.lift_eq rfl)
          (fun t => NIc.sandbox _ (fun n => body t n))) rt1 rt2 w hb
    | nil => exact ⟨rfl, rfl, hb⟩
    | st x => exact ⟨rfl, rfl, hb⟩
    | arr xs => exact ⟨rfl, rfl, hb⟩
    | obj kvs => exact ⟨rfl, rfl, hb⟩
  | err => exact ⟨rfl, rfl, hb⟩
  | io => exact ⟨rfl, rfl, hb⟩
  | fuel => exact ⟨rfl, rfl, hb⟩
  | panic s => exact ⟨rfl, rfl, hb⟩

end Liquid.NI
