/-
  C02 ops:
    c02 <render case>                           generated (template, data) pairs; templates may use the
                                                modelled standard filters; model = interpreter with
                                                `stdFilters`, spec = no panic / valid UTF-8 / error has msg
    c02f <kind> x<name> <input> <n> <args> => …  every filter x input kind x argument kinds (incl. the
                                                jekyll/shopify/extra filters): oracle only + model where
                                                the filter is in `stdFilters`
-/
import LiquidModel.Drv.Render
import LiquidModel.Drv.C14
import LiquidModel.Drv.C15
import LiquidModel.Model.StdFilters
namespace Liquid.Drv.C02
open Liquid Liquid.Codec Liquid.Drv

def stdBase : Str → Option (V → List V → Res V) := stdFilters C15.nativeOps C14.lowerStr

def c02Op (args : List String) : String :=
  match run pRenderCase args with
  | some (c, []) =>
    if c.obsTag == "PANIC" then "specfail " ++ c.kind ++ " law=no-panic"
    else if c.obsTag == "BADUTF8" then "specfail " ++ c.kind ++ " law=output-is-utf8"
    else if (c.obsTag == "err" || c.obsTag == "perr") && c.obsPayload != "msg" then "specfail " ++ c.kind ++ " law=error-has-message"
    else if c.kind.startsWith "oracle" then "ok " ++ c.kind ++ " (oracle)"
    else renderOp stdBase args
  | _ => "bad-op c02"

def c02fOp (args : List String) : String :=
  filterOp (fun name => stdBase name) noPanicSpec args

end Liquid.Drv.C02
