/-
  `c15` op:  `c15 <kind> x<filter> <input V> <nargs> <arg V>* => <obs> [& <obs2>]`
  Runs the model of the math filters (`Model/Math.lean`, IEEE `+ − × ÷` and `powi` instantiated with
  Lean's native doubles through `Float.ofBits/toBits`) and the independent spec (`Spec/C15.lean`) on
  the implementation's observation.  Floats are compared by bit pattern, all NaNs identified.
-/
import LiquidModel.Drv.FilterOp
import LiquidModel.Model.Math
import LiquidModel.Spec.C15
namespace Liquid.Drv.C15
open Liquid Liquid.Codec

def bitsF (n : Nat) : Float := Float.ofBits n.toUInt64
def fBits (f : Float) : Nat := f.toBits.toNat

/-- `__powidf2` of compiler-builtins (what `f64::powi` compiles to for a run-time exponent) -/
def powiNative (a : Float) (n : Nat) : Float := Id.run do
  let mut a := a
  let mut p := n
  let mut r : Float := 1.0
  for _ in [0:64] do
    if p % 2 == 1 then r := r * a
    p := p / 2
    if p == 0 then break
    a := a * a
  return r

/-- The external IEEE operations: hardware doubles.  `%` has no native counterpart in Lean; the
exact integer `fmodBits` is used and thereby validated against Rust's `%` bit by bit. -/
def nativeOps : FloatOps where
  add a b := fBits (bitsF a + bitsF b)
  sub a b := fBits (bitsF a - bitsF b)
  mul a b := fBits (bitsF a * bitsF b)
  div a b := fBits (bitsF a / bitsF b)
  rem := fmodBits
  powi10 n := fBits (powiNative 10.0 n)

def nativeIEEE : C15.IEEE where
  add a b := fBits (bitsF a + bitsF b)
  sub a b := fBits (bitsF a - bitsF b)
  mul a b := fBits (bitsF a * bitsF b)
  div a b := fBits (bitsF a / bitsF b)
  ofInt i := fBits (Float.ofInt i)

def toObs : FObs → C15.Obs
  | .ok v => .ok v
  | .argerr _ => .err
  | .err _ => .err
  | .panic => .panic

def resMatches (r : Res V) (o : FObs) : Bool :=
  match r, o with
  | .ok v, .ok w => C15.sameV v w
  | .err, .err true => true
  | .err, .argerr true => true
  | .panic _, .panic => true
  | _, _ => false

def c15Op (args : List String) : String :=
  match run pFilterCase args with
  | some (c, rest) =>
    let obs2? : Option (Option FObs) :=
      match rest with
      | [] => some none
      | "&" :: r => (match run pFObs r with | some (o, []) => some (some o) | _ => none)
      | _ => none
    match obs2? with
    | none => "bad-op c15"
    | some o2 =>
      let name := String.ofList c.name
      match (noPanicSpec c).orElse fun _ => (o2.bind fun o => noPanicSpec { c with obs := o }) with
      | some law => "specfail " ++ c.kind ++ " law=" ++ law ++ " impl=" ++ showFObs c.obs
      | none =>
      match C15.spec nativeIEEE c.kind name c.input c.args (toObs c.obs) (o2.map toObs) with
      | some law => "specfail " ++ c.kind ++ " law=" ++ law ++ " impl=" ++ showFObs c.obs ++
          (match o2 with | some o => " & " ++ showFObs o | none => "")
      | none =>
        match mathFilters nativeOps c.name with
        | none => "bad-op c15 unknown filter"
        | some f =>
          let r := f c.input c.args
          if !resMatches r c.obs then
            "diff " ++ c.kind ++ " model=" ++ showResV r ++ " impl=" ++ showFObs c.obs
          else if c.kind.startsWith "divmod" then
            -- second observation = modulo on the same operands
            let r2 := binFilter .new nativeOps .modulo c.input c.args
            match o2 with
            | some o => if resMatches r2 o then "ok " ++ c.kind
                        else "diff " ++ c.kind ++ " model(modulo)=" ++ showResV r2 ++ " impl=" ++ showFObs o
            | none => "bad-op c15 divmod"
          else "ok " ++ c.kind
  | none => "bad-op c15"

end Liquid.Drv.C15
