/-
  `c14` op: `c14 <kind> x<filter> <input V> <nargs> <arg V>* => <observation>`.
  1. the executable spec of C14 (`Spec/C14.lean`) judges the implementation's observation;
  2. the model (`Model/ArrFilters.lean`) is compared with it — for `sort` only when the comparator is
     a total preorder on this input (otherwise `std`'s result is unspecified and only the spec —
     permutation, no panic — is consulted).
  Objects are compared up to entry order (hash order is not an observation of this property).
-/
import LiquidModel.Drv.FilterOp
import LiquidModel.Spec.C14
namespace Liquid.Drv.C14
open Liquid Liquid.Codec Liquid.Arr Liquid.C14

/-- `str::to_lowercase` on the alphabet the C14 generator uses: ASCII, Latin-1, basic Cyrillic. -/
def lowerChar (c : Char) : Char :=
  let n := c.toNat
  if 0x41 ≤ n && n ≤ 0x5A then Char.ofNat (n + 32)
  else if 0xC0 ≤ n && n ≤ 0xDE && n != 0xD7 then Char.ofNat (n + 32)
  else if 0x410 ≤ n && n ≤ 0x42F then Char.ofNat (n + 32)
  else if 0x400 ≤ n && n ≤ 0x40F then Char.ofNat (n + 80)
  else c

def lowerStr (s : Str) : Str := s.map lowerChar

def insertKV (kv : Str × V) : List (Str × V) → List (Str × V)
  | [] => [kv]
  | x :: r => if strCmp kv.1 x.1 == .gt then x :: insertKV kv r else kv :: x :: r

/-- sort object entries by key, recursively -/
partial def canonV : V → V
  | .arr xs => .arr (xs.map canonV)
  | .obj kvs => .obj ((kvs.map fun (k, v) => (k, canonV v)).foldr insertKV [])
  | v => v

def canonObs : FObs → FObs
  | .ok v => .ok (canonV v)
  | o => o

def sameC (a b : V) : Bool := (canonV a).same (canonV b)
def sameLC (a b : List V) : Bool := sameC (.arr a) (.arr b)

def law (name : String) (b : Bool) : Option String := if b then none else some name

def smallInt? (v : V) : Option Int :=
  match v with
  | .sc (.int i) => if -1000000 ≤ i && i ≤ 1000000 then some i else none
  | _ => none

/-- the C14 spec on one observed filter application; `none` = no law violated -/
def c14Spec (c : FilterCase) : Option String :=
  match noPanicSpec c with
  | some l => some l
  | none =>
  match c.obs with
  | .ok out0 =>
    let out := canonV out0
    let input := canonV c.input
    let args := c.args.map canonV
    let name := String.ofList c.name
    let arrOut? : Option (List V) := match out with | .arr ys => some ys | _ => none
    if name == "sort" || name == "sort_natural" || name == "jekyll_sort" then
      -- the comparator may look at object entry order (D12): judge on the values as transmitted
      let xs := asSequence c.input
      match out0 with
      | .arr ys =>
        if c.args.length > 1 || name == "jekyll_sort" then
          law "sort-permutation" (permB (xs.map canonV) (ys.map canonV))
        else
          let key : V → V := match c.args with | [p] => propOf p.render | _ => id
          if !permB (xs.map canonV) (ys.map canonV) then some "sort-permutation"
          else if name == "sort" then
            sortSpec (fun a b => sortLe (key a) (key b)) (fun a b => cmpGt (key a) (key b)) key xs ys
          else
            let le := fun a b => casecmpLe (casecmpKey lowerStr (key a)) (casecmpKey lowerStr (key b))
            sortSpec le (fun a b => !le a b) key xs ys
      | _ => some "sort-returns-array"
    else match input with
    | .arr xs =>
      match name, args with
      | "uniq", [] => (match arrOut? with | some ys => uniqSpec xs ys | none => some "uniq-returns-array")
      | "reverse", [] =>
        (match arrOut? with
         | some ys => if !permB xs ys then some "reverse-permutation" else law "reverse-index" (reverseSpec xs ys)
         | none => some "reverse-returns-array")
      | "compact", [] =>
        (match arrOut? with
         | some ys => law "compact-removes-exactly-nils" (sameL ys (xs.filter fun v => !v.isNil))
         | none => some "compact-returns-array")
      | "compact", [p] =>
        if xs.all isObj then
          (match arrOut? with
           | some ys => law "compact-property" (sameL ys (xs.filter fun v =>
               match hasProp p.render v with | some w => !w.isNil | none => false))
           | none => some "compact-returns-array")
        else none
      | "concat", [.arr zs] =>
        (match arrOut? with
         | some ys => law "concat-length-and-order" (ys.length == xs.length + zs.length && sameL ys (xs ++ zs))
         | none => some "concat-returns-array")
      | "map", [p] =>
        (match arrOut? with
         | some ys => law "map-exactly-the-properties" (sameL ys (xs.filterMap (hasProp p.render)))
         | none => some "map-returns-array")
      | "where", [p] =>
        if xs.all isObj then
          (match arrOut? with
           | some ys => law "where-truthy" (sameL ys (xs.filter fun v =>
               match hasProp p.render v with | some w => w.queryState .truthy | none => false))
           | none => some "where-returns-array")
        else none
      | "where", [p, t] =>
        if xs.all isObj then
          (match arrOut? with
           | some ys => law "where-equal-to-target" (sameL ys (xs.filter fun v =>
               match hasProp p.render v with | some w => valueEq t w | none => false))
           | none => some "where-returns-array")
        else none
      | "first", [] => law "first-index" (out.same (getD? xs 0))
      | "last", [] => law "last-index" (out.same (if xs.isEmpty then .nil else getD? xs (xs.length - 1)))
      | "size", [] => law "size-length" (out.same (.sc (.int xs.length)))
      | "join", [] => law "join" (out.same (.sc (.str (List.intercalate [' '] (xs.map V.render)))))
      | "join", [s] => law "join" (out.same (.sc (.str (List.intercalate s.render (xs.map V.render)))))
      | "slice", [o] =>
        (match smallInt? o, arrOut? with
         | some off, some ys => law "slice-index" (sliceSpec xs off 1 ys)
         | some _, none => some "slice-returns-array"
         | none, _ => none)
      | "slice", [o, l] =>
        (match smallInt? o, smallInt? l, arrOut? with
         | some off, some len, some ys => if len ≥ 1 then law "slice-index" (sliceSpec xs off len ys) else some "slice-length-positive"
         | some _, some _, none => some "slice-returns-array"
         | _, _, _ => none)
      | _, _ => none
    | _ => none
  | _ => none

/-- is the sort comparator a total preorder on this input (⇒ the result is determined)? -/
def c14Determined (c : FilterCase) : Bool :=
  let name := String.ofList c.name
  if name == "sort" then
    let xs := asSequence c.input
    match c.args with
    | [] => totalPreorderOnB (dedupSame xs) sortLe
    | [p] => totalPreorderOnB (dedupSame xs) (fun a b => sortLe (propOf p.render a) (propOf p.render b))
    | _ => true
  else true

def c14Op (args : List String) : String :=
  match run pFilterCase args with
  | some (c, []) =>
    match c14Spec c with
    | some l => "specfail " ++ c.kind ++ " law=" ++ l ++ " impl=" ++ showFObs c.obs
    | none =>
      match Arr.filters lowerStr c.name with
      | none => "ok " ++ c.kind ++ " (unmodelled: spec only)"
      | some f =>
        let r := f c.input c.args
        let rc : Res V := match r with | .ok v => .ok (canonV v) | o => o
        if !c14Determined c then
          -- informational only: a stable sort is not determined by an inconsistent comparator
          "ok " ++ c.kind ++ " (inconsistent comparator: spec only; model " ++
            (if fobsMatches rc (canonObs c.obs) then "agrees)" else "differs)")
        else
          if fobsMatches rc (canonObs c.obs) then "ok " ++ c.kind
          else "diff " ++ c.kind ++ " model=" ++ showResV r ++ " impl=" ++ showFObs c.obs
  | _ => "bad-op c14"

end Liquid.Drv.C14
