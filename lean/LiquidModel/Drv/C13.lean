/-
  C13 driver ops.
  `c13      <kind> x<name> <input V> <nargs> <arg V>* => <obs> U <uni>`       one filter application
  `c13law   <kind> <obs a> <obs b>`                                           two observations that a law says are equal
  `c13chain <kind> <uni> <nsteps> <obs>* R <tmpl> <data> <partials> <tag> <payload> [#…]`
            a `{{ x | f₁ … | fₙ }}` template rendered by the real parser+runtime, together with the
            step-by-step application of the same filters through the plugin API.
  `<uni>` = `<nseg> (x<str> <k> <len₁>…<len_k>)* <ncase> (x<char> x<upper> x<lower>)*`: the grapheme
  segmentation (`unicode_segmentation`) of the strings the case needs and the case maps of its
  non-ASCII characters, as computed by the implementation's own dependencies.
-/
import LiquidModel.Drv.Render
import LiquidModel.Drv.FilterOp
import LiquidModel.Spec.C13
namespace Liquid.Drv.C13
open Liquid Liquid.Codec

structure UniTab where
  segs : List (Str × List Str) := []
  cases : List (Char × Str × Str) := []

/-- cut `s` into pieces of the given lengths; `none` unless they are positive and add up -/
def cutLens : List Nat → Str → Option (List Str)
  | [], [] => some []
  | [], _ :: _ => none
  | 0 :: _, _ => none
  | (n + 1) :: r, s =>
    if s.length < n + 1 then none else
    match cutLens r (s.drop (n + 1)) with
    | some ps => some (s.take (n + 1) :: ps)
    | none => none

def pSegEntry : P (Str × List Str) := do
  let s ← pStr
  let lens ← many pNat
  match cutLens lens s with
  | some ps => pure (s, ps)
  | none => failure

def pCaseEntry : P (Char × Str × Str) := do
  let c ← pStr
  let up ← pStr
  let lo ← pStr
  match c with
  | [ch] => pure (ch, up, lo)
  | _ => failure

def pUniTab : P UniTab := do
  let segs ← many pSegEntry
  let cases ← many pCaseEntry
  pure { segs := segs, cases := cases }

/-- Unicode tables of a case: shipped entries first; ASCII case mapping and the restricted-alphabet
segmentation for what was not shipped. -/
def UniTab.toUni (t : UniTab) : StrF.Uni where
  upper c := match t.cases.find? (·.1 == c) with
    | some (_, up, _) => up
    | none => [C13S.asciiUp c]
  lower c := match t.cases.find? (·.1 == c) with
    | some (_, _, lo) => lo
    | none => [C13S.asciiDown c]
  seg s := match t.segs.find? (·.1 == s) with
    | some (_, ps) => ps
    | none => StrF.segSimple s

def toSpecObs : FObs → C13S.Obs
  | .ok v => .ok v
  | .argerr m => .err m
  | .err m => .err m
  | .panic => .panic

def c13Model (u : StrF.Uni) (name : Str) : Option (V → List V → Res V) := StrF.table u name

/-- `c13`: spec verdict on the implementation's observation, then model = implementation. -/
def c13Op (args : List String) : String :=
  match run pFilterCase args with
  | some (c, rest) =>
    let tab : Option UniTab := match rest with
      | [] => some {}
      | "U" :: r => (match run pUniTab r with | some (t, []) => some t | _ => none)
      | _ => none
    match tab with
    | none => "bad-op c13 (uni table)"
    | some tab =>
      let u := tab.toUni
      match C13S.check u (String.ofList c.name) c.input c.args (toSpecObs c.obs) with
      | some law => "specfail " ++ c.kind ++ " law=" ++ law ++ " impl=" ++ showFObs c.obs
      | none =>
        match c13Model u c.name with
        | none => "bad-op c13 (unknown filter)"
        | some f =>
          let r := f c.input c.args
          if fobsMatches r c.obs then "ok " ++ c.kind
          else "diff " ++ c.kind ++ " model=" ++ showResV r ++ " impl=" ++ showFObs c.obs
  | none => "bad-op c13"

/-- `c13law`: both observations must be results and structurally the same value. -/
def c13LawOp (args : List String) : String :=
  let p : P (String × FObs × FObs) := do
    let kind ← tok
    let a ← pFObs
    let b ← pFObs
    pure (kind, a, b)
  match run p args with
  | some ((kind, a, b), []) =>
    match a, b with
    | .ok v, .ok w =>
      if v.same w then "ok " ++ kind
      else "specfail " ++ kind ++ " law=" ++ kind ++ " lhs=" ++ showV v ++ " rhs=" ++ showV w
    | .panic, _ => "specfail " ++ kind ++ " law=no-panic"
    | _, .panic => "specfail " ++ kind ++ " law=no-panic"
    | _, _ => "specfail " ++ kind ++ " law=" ++ kind ++ " lhs=" ++ showFObs a ++ " rhs=" ++ showFObs b
  | _ => "bad-op c13law"

structure ChainCase where
  kind : String
  tab : UniTab
  steps : List FObs
  tmpl : Tmpl
  data : Obj
  obsTag : String
  obsPayload : String

def pChainCase : P ChainCase := do
  let kind ← tok
  let tab ← pUniTab
  let steps ← many pFObs
  let r ← tok
  if r != "R" then failure
  let t ← pTmpl
  let d ← pObj
  let _ ← pPartials
  let tag ← tok
  let pay ← tok
  let rest ← get
  match rest with
  | [c] => if c.startsWith "#" then set ([] : List String) else pure ()
  | _ => pure ()
  pure { kind := kind, tab := tab, steps := steps, tmpl := t, data := d, obsTag := tag, obsPayload := pay }

/-- what rendering the chain must give according to the step-by-step application: the string form
of the last result, or an error as soon as one step is an error -/
def stepsExpect : List FObs → Option (Option Str)
  | [] => none
  | steps =>
    if steps.any (fun o => match o with | .panic => true | _ => false) then none
    else match steps.find? (fun o => match o with | .ok _ => false | _ => true) with
      | some _ => some none
      | none => match steps.getLast? with
        | some (.ok v) => some (some v.render)
        | _ => none

/-- `c13chain`: (S) the rendered template equals the left-to-right composition of the individual
filter applications observed on the implementation; (M) the model interpreter with the C13 filter
table gives the same output. -/
def c13ChainOp (args : List String) : String :=
  match run pChainCase args with
  | some (c, []) =>
    let u := c.tab.toUni
    let specBad : Option String :=
      if c.obsTag == "PANIC" then some "no-panic"
      else match stepsExpect c.steps with
        | some (some s) => if c.obsTag == "ok" && c.obsPayload == xstr s then none else some "chain-is-left-to-right-composition"
        | some none => if c.obsTag == "err" then none else some "chain-propagates-the-first-error"
        | none => if c.steps.isEmpty then none else some "no-panic"
    match specBad with
    | some law => "specfail " ++ c.kind ++ " law=" ++ law ++ " impl=" ++ c.obsTag ++ " " ++ c.obsPayload
    | none =>
      let env : Env := { filters := StrF.table u }
      let r := renderTop defaultFuel env c.tmpl c.data
      if obsMatches r c.obsTag c.obsPayload then "ok " ++ c.kind
      else "diff " ++ c.kind ++ " model=" ++ showRes r ++ " impl=" ++ c.obsTag ++ " " ++ c.obsPayload
  | _ => "bad-op c13chain"

end Liquid.Drv.C13
