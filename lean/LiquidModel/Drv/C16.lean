/-
  C16 driver ops.  Observation part of every line: `=> <tag> <part>…` where `tag` is
  `ok | err | PANIC` (summary for the histogram) and each part is `x<hex>` (the filter returned that
  string), `E` / `e` (error with / without message), `P` (panic), `?` (a non-string value).

    c16esc   <kind> x<s>             => tag  escape(s)  escape_once(s)  escape_once(escape_once(s))
    c16keep  <kind> x<p> x<e> x<t>   => tag  escape_once(p++e++t)  escape_once(p)  escape_once(t)
    c16url   <kind> x<s>             => tag  url_encode(s)  url_decode(url_encode(s))  url_decode(s)
    c16strip <kind> x<s>             => tag  strip_html(s)
    c16utfm  <kind> <hex bytes | ->  => tag  <256 chars 0/1>   url_decode accepts prefix ++ [b], b = 0..255
    c16utf1  <kind> <hex bytes | ->  => tag  0|1               url_decode accepts these bytes
    c16fold  <kind> x<letter> <lo> <hi> => tag <cp,cp,… | ->   code points in [lo,hi] matching `letter` under (?i)
    c16f     generic filter op (non-string inputs, arity errors)

  Verdict: `specfail` when the executable spec of `Spec/C16.lean` rejects what the implementation
  did, else `diff` when the model computes something else, else `ok`.
-/
import LiquidModel.Drv.FilterOp
import LiquidModel.Spec.C16
namespace Liquid.Drv.C16
open Liquid Liquid.Codec Liquid.Html Liquid.Url

inductive SObs where
  | ok (s : Str)
  | err (msg : Bool)
  | panic
  | other
  deriving Inhabited

def pSObs : P SObs := do
  let t ← tok
  match t.toList with
  | 'x' :: r => SObs.ok <$> liftO (unhex? r)
  | ['E'] => pure (.err true)
  | ['e'] => pure (.err false)
  | ['P'] => pure .panic
  | ['?'] => pure .other
  | _ => failure

def showSObs : SObs → String
  | .ok s => xstr s
  | .err true => "E"
  | .err false => "e"
  | .panic => "P"
  | .other => "?"

def SObs.str? : SObs → Option Str
  | .ok s => some s
  | _ => none

/-- laws every part obeys: no panic, errors carry a message, results are strings -/
def partsBase (ps : List SObs) : Option String :=
  if ps.any (fun | .panic => true | _ => false) then some "no-panic"
  else if ps.any (fun | .err false => true | _ => false) then some "error-has-message"
  else if ps.any (fun | .other => true | _ => false) then some "result-is-a-string"
  else none

def c16Verdict (kind : String) (spec : Option String) (agree : Bool) (model : String) (impl : List SObs) : String :=
  let im := " ".intercalate (impl.map showSObs)
  match spec with
  | some law => "specfail " ++ kind ++ " law=" ++ law ++ " impl=" ++ im ++ " model=" ++ model
  | none => if agree then "ok " ++ kind else "diff " ++ kind ++ " model=" ++ model ++ " impl=" ++ im

def firstSome (xs : List (Option String)) : Option String := xs.findSome? id

def arrowTag : P Unit := do
  let a ← tok
  if a != "=>" then failure
  let _ ← tok   -- summary tag
  pure ()

def c16EscOp (args : List String) : String :=
  let p : P (String × Str × SObs × SObs × SObs) := do
    let kind ← tok; let s ← pStr; arrowTag
    let a ← pSObs; let b ← pSObs; let c ← pSObs
    pure (kind, s, a, b, c)
  match run p args with
  | some ((kind, s, a, b, c), []) =>
    let mE := escape s; let mO := escapeOnce s
    let model := xstr mE ++ " " ++ xstr mO ++ " " ++ xstr (escapeOnce mO)
    let spec := firstSome [partsBase [a, b, c],
      match a with | .ok e => C16.escapeLaw s e | _ => some "escape-failed-on-a-string",
      match b, c with | .ok o, .ok o2 => C16.onceLaw s o o2 | _, _ => some "escape_once-failed-on-a-string"]
    let agree := match a, b, c with
      | .ok e, .ok o, .ok o2 => e == mE && o == mO && o2 == escapeOnce mO
      | _, _, _ => false
    c16Verdict kind spec agree model [a, b, c]
  | _ => "bad-op c16esc"

def c16KeepOp (args : List String) : String :=
  let p : P (String × Str × Str × Str × SObs × SObs × SObs) := do
    let kind ← tok; let pp ← pStr; let e ← pStr; let t ← pStr; arrowTag
    let a ← pSObs; let b ← pSObs; let c ← pSObs
    pure (kind, pp, e, t, a, b, c)
  match run p args with
  | some ((kind, pp, e, t, a, b, c), []) =>
    let mW := escapeOnce (pp ++ e ++ t); let mP := escapeOnce pp; let mT := escapeOnce t
    let model := xstr mW ++ " " ++ xstr mP ++ " " ++ xstr mT
    let spec := firstSome [partsBase [a, b, c],
      if C16.entityStrs.contains e then none else some "harness-sent-a-non-entity",
      match a, b, c with
      | .ok w, .ok po, .ok to => C16.keepsLaw e w po to
      | _, _, _ => some "escape_once-failed-on-a-string"]
    let agree := match a, b, c with
      | .ok w, .ok po, .ok to => w == mW && po == mP && to == mT
      | _, _, _ => false
    c16Verdict kind spec agree model [a, b, c]
  | _ => "bad-op c16keep"

def resStr (r : Res Str) : String :=
  match r with
  | .ok s => xstr s
  | .err => "E"
  | .panic _ => "P"
  | _ => "?"

/-- does a decode observation match the model's outcome? -/
def decAgrees (r : Res Str) (o : SObs) : Bool :=
  match r, o with
  | .ok s, .ok t => s == t
  | .err, .err true => true
  | _, _ => false

def c16UrlOp (args : List String) : String :=
  let p : P (String × Str × SObs × SObs × SObs) := do
    let kind ← tok; let s ← pStr; arrowTag
    let a ← pSObs; let b ← pSObs; let c ← pSObs
    pure (kind, s, a, b, c)
  match run p args with
  | some ((kind, s, a, b, c), []) =>
    let mE := urlEncode s
    let mB := urlDecode mE
    let mD := urlDecode s
    let model := xstr mE ++ " " ++ resStr mB ++ " " ++ resStr mD
    let spec := firstSome [partsBase [a, b, c],
      match a with
      | .ok e => C16.urlEncLaw s e b.str?
      | _ => some "url_encode-failed-on-a-string",
      match c with
      | .ok t => C16.urlDecLaw s (some t)
      | .err _ => C16.urlDecLaw s none
      | _ => none]
    let agree := (match a with | .ok e => e == mE | _ => false) && decAgrees mB b && decAgrees mD c
    c16Verdict kind spec agree model [a, b, c]
  | _ => "bad-op c16url"

def c16StripOp (args : List String) : String :=
  let p : P (String × Str × SObs) := do
    let kind ← tok; let s ← pStr; arrowTag
    let a ← pSObs
    pure (kind, s, a)
  match run p args with
  | some ((kind, s, a), []) =>
    let m := stripHtml s
    let spec := firstSome [partsBase [a],
      match a with | .ok o => C16.stripLaw o | _ => some "strip_html-failed-on-a-string"]
    let agree := match a with | .ok o => o == m | _ => false
    c16Verdict kind spec agree (xstr m) [a]
  | _ => "bad-op c16strip"

def hexBytesNat? : List Char → Option (List Nat)
  | [] => some []
  | [_] => none
  | a :: b :: r => do
    let x ← hexDigit? a; let y ← hexDigit? b
    let rest ← hexBytesNat? r
    pure ((x * 16 + y) :: rest)

def pBytes : P (List Nat) := do
  let t ← tok
  if t == "-" then pure [] else liftO (hexBytesNat? t.toList)

def bitsOf (bs : List Bool) : String := String.ofList (bs.map fun b => if b then '1' else '0')

/-- UTF-8 validity as `url_decode` sees it.  `validUtf8` is proved to accept exactly the encodings
of strings (`C16_utf8_roundtrip`, `C16_utf8_dec_exact`), so a mismatch is a spec failure. -/
def c16UtfOp (mask : Bool) (args : List String) : String :=
  let p : P (String × List Nat × String) := do
    let kind ← tok; let bs ← pBytes; arrowTag
    let bits ← tok
    pure (kind, bs, bits)
  match run p args with
  | some ((kind, bs, bits), []) =>
    let m := if mask then bitsOf ((List.range 256).map fun b => validUtf8 (bs ++ [b])) else bitsOf [validUtf8 bs]
    if bits == "PANIC" then "specfail " ++ kind ++ " law=no-panic"
    else if bits == m then "ok " ++ kind
    else "specfail " ++ kind ++ " law=url_decode-error-iff-invalid-utf8 model=" ++ m ++ " impl=" ++ bits
  | _ => "bad-op c16utf"

def pNatHex : P Nat := do let t ← tok; liftO (hexNat? t.toList)

def c16FoldOp (args : List String) : String :=
  let p : P (String × Str × Nat × Nat × String) := do
    let kind ← tok; let l ← pStr; let lo ← pNatHex; let hi ← pNatHex; arrowTag
    let got ← tok
    pure (kind, l, lo, hi, got)
  match run p args with
  | some ((kind, [l], lo, hi, got), []) =>
    let cps := (List.range (hi + 1 - lo)).filterMap fun i =>
      let n := lo + i
      if n.isValidChar then (if ciEq l (Char.ofNat n) then some n else none) else none
    let m := if cps.isEmpty then "-" else ",".intercalate (cps.map fun n => String.ofList (Nat.toDigits 16 n))
    if got == m then "ok " ++ kind else "diff " ++ kind ++ " model=" ++ m ++ " impl=" ++ got
  | _ => "bad-op c16fold"

def c16Filters (name : Str) : Option (V → List V → Res V) :=
  if name == "escape".toList then some (escapeFilter false)
  else if name == "escape_once".toList then some (escapeFilter true)
  else if name == "strip_html".toList then some stripHtmlFilter
  else if name == "url_encode".toList then some urlEncodeFilter
  else if name == "url_decode".toList then some urlDecodeFilter
  else none

def c16FilterOp : List String → String := filterOp c16Filters noPanicSpec

end Liquid.Drv.C16
