import LiquidModel.Drv.Codec
import LiquidModel.Drv.Render
namespace Liquid.Drv

/-- op name ↦ handler; each `Drv/*.lean` contributes its ops here. -/
def dispatch (op : String) : Option (List String → String) :=
  match op with
  | "render" => some (renderOp baseFilters)
  | _ => none

end Liquid.Drv
