import LiquidModel.Drv.Codec
import LiquidModel.Drv.Render
import LiquidModel.Drv.FilterOp
import LiquidModel.Drv.C01
import LiquidModel.Drv.C02
import LiquidModel.Drv.C04
import LiquidModel.Drv.C05
import LiquidModel.Drv.C06
import LiquidModel.Drv.C07
import LiquidModel.Drv.C09
import LiquidModel.Drv.C10
import LiquidModel.Drv.C18
import LiquidModel.Drv.C16
import LiquidModel.Drv.C15
import LiquidModel.Drv.C11
import LiquidModel.Drv.C12
import LiquidModel.Drv.C13
import LiquidModel.Drv.C17
import LiquidModel.Drv.C14
import LiquidModel.Drv.C03
namespace Liquid.Drv
open C01 C02 C03 C11 C12 C13 C14 C15 C16 C17

/-- op name ↦ handler; each `Drv/*.lean` contributes its ops here. -/
def dispatch (op : String) : Option (List String → String) :=
  match op with
  | "render" => some (renderOp baseFilters)
  | "bp" => some bpOp
  | "c02" => some c02Op
  | "c02f" => some c02fOp
  | "ptext" => some ptextOp
  | "c04" => some c04Op
  | "c05" => some c05Op
  | "c06" => some c06Op
  | "lit" => some litOp
  | "findapi" => some findApiOp
  | "law" => some lawOp
  | "c07r" => some c07rOp
  | "c08" => some c08Op
  | "c09" => some c09Op
  | "c09x" => some c09xOp
  | "c19" => some c19Op
  | "c20" => some c20Op
  | "sink" => some (sinkOp baseFilters)
  | "stack" => some stackOp
  | "c16esc" => some c16EscOp
  | "c16keep" => some c16KeepOp
  | "c16url" => some c16UrlOp
  | "c16strip" => some c16StripOp
  | "c16utfm" => some (c16UtfOp true)
  | "c16utf1" => some (c16UtfOp false)
  | "c16fold" => some c16FoldOp
  | "c16f" => some c16FilterOp
  | "c15" => some c15Op
  | "c11" => some c11Op
  | "c12" => some c12Op
  | "c12t" => some c12tOp
  | "c13" => some c13Op
  | "c13law" => some c13LawOp
  | "c13chain" => some c13ChainOp
  | "c17" => some c17Op
  | "c17p" => some c17pOp
  | "c17r" => some c17rOp
  | "c17c" => some c17cOp
  | "c17z" => some c17zOp
  | "c17d" => some c17dOp
  | "c14" => some c14Op
  | "c03" => some c03Op
  | _ => none

end Liquid.Drv
