import LiquidModel.Drv.Codec
import LiquidModel.Drv.Render
import LiquidModel.Drv.FilterOp
import LiquidModel.Drv.C05
import LiquidModel.Drv.C06
import LiquidModel.Drv.C07
import LiquidModel.Drv.C18
namespace Liquid.Drv

/-- op name ↦ handler; each `Drv/*.lean` contributes its ops here. -/
def dispatch (op : String) : Option (List String → String) :=
  match op with
  | "render" => some (renderOp baseFilters)
  | "c05" => some c05Op
  | "c06" => some c06Op
  | "lit" => some litOp
  | "stack" => some stackOp
  | _ => none

end Liquid.Drv
