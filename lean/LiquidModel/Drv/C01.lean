/-
  C01 ops:
    bp <n> <el>* => <status>        abstract element sequence (realised as text by the harness), the
                                    implementation's parse status; model = `BP.parseTop stdCfg`
    ptext <cfg> x<text> => <status> arbitrary text: oracle "no panic, errors carry a message"; model =
                                    `Mini.parseText` where it supports the constructs (stdlib cfg only)
-/
import LiquidModel.Drv.Codec
import LiquidModel.Model.BlockParse
import LiquidModel.Model.MiniParse
namespace Liquid.Drv.C01
open Liquid Liquid.Codec Liquid.BP

def pEl : P El := do
  match (← tok) with
  | "r" => pure .raw
  | "e1" => pure (.expr true)
  | "e0" => pure (.expr false)
  | "i" => pure .invalid
  | "t" => do
    let name ← pStr; let a ← pBool; let n ← pBool
    pure (.tag name a n)
  | _ => failure

def statusOk (tag pay : String) : Option Bool :=
  if tag == "ok" then some true else if tag == "perr" && pay == "msg" then some false else none

def bpOp (args : List String) : String :=
  let p : P (String × List El × String × String) := do
    let kind ← tok
    let els ← many pEl
    let arrow ← tok
    if arrow != "=>" then failure
    let tag ← tok; let pay ← tok
    let rest ← get
    match rest with
    | [c] => if c.startsWith "#" then set ([] : List String) else pure ()
    | _ => pure ()
    pure (kind, els, tag, pay)
  match run p args with
  | some ((kind, els, tag, pay), []) =>
    if tag == "PANIC" then "specfail " ++ kind ++ " law=no-panic" else
    if tag == "perr" && pay != "msg" then "specfail " ++ kind ++ " law=error-has-message" else
    match statusOk tag pay with
    | none => "bad-op bp-status " ++ tag
    | some ok =>
      let m := parseTop stdCfg (2 * els.length + 8) (els ++ [.eoi])
      match m with
      | .ok => if ok then "ok " ++ kind else "diff " ++ kind ++ " model=ok impl=err"
      | .err => if !ok then "ok " ++ kind else "diff " ++ kind ++ " model=err impl=ok"
      | .panic s => "diff " ++ kind ++ " model=PANIC " ++ s
      | .fuel => "diff " ++ kind ++ " model=FUEL"
  | _ => "bad-op bp"

def ptextOp (args : List String) : String :=
  let p : P (String × String × Str × String × String) := do
    let kind ← tok; let cfg ← tok; let text ← pStr
    let arrow ← tok
    if arrow != "=>" then failure
    let tag ← tok; let pay ← tok
    pure (kind, cfg, text, tag, pay)
  match run p args with
  | some ((kind, cfg, text, tag, pay), []) =>
    if tag == "PANIC" then "specfail " ++ kind ++ " law=no-panic" else
    if tag == "perr" && pay != "msg" then "specfail " ++ kind ++ " law=error-has-message" else
    if cfg != "std" then "ok " ++ kind ++ " (oracle)" else
    match Mini.parseText text, statusOk tag pay with
    | .ok _, some true => "ok " ++ kind
    | .err, some false => "ok " ++ kind
    | .unsupported, _ => "ok " ++ kind ++ " (oracle)"
    | .ok _, some false => "diff " ++ kind ++ " model=ok impl=err"
    | .err, some true => "diff " ++ kind ++ " model=err impl=ok"
    | .panic s, _ => "diff " ++ kind ++ " model=PANIC " ++ s
    | _, none => "bad-op ptext-status " ++ tag
  | _ => "bad-op ptext"

end Liquid.Drv.C01
