/-
  C12 driver ops (`c12 <kind> …`, `c12t <kind> …`).  I/O glue: token codecs for the serde data
  model `SD`, the derive-family datum `TD`, the date-text oracle table, view bundles; each op
  compares the implementation's observation with the model and evaluates the spec predicates of
  `Spec/C12.lean` on what the implementation did.
-/
import LiquidModel.Drv.Render
import LiquidModel.Drv.FilterOp
import LiquidModel.Spec.C12
namespace Liquid.Drv.C12
open Liquid Liquid.Codec Liquid.C12

/-! ### codecs -/

def pIntTag (s : String) : Option IntTag :=
  match s with
  | "i8" => some .i8 | "i16" => some .i16 | "i32" => some .i32 | "i64" => some .i64 | "i128" => some .i128
  | "u8" => some .u8 | "u16" => some .u16 | "u32" => some .u32 | "u64" => some .u64 | "u128" => some .u128
  | _ => none

def showIntTag : IntTag → String
  | .i8 => "i8" | .i16 => "i16" | .i32 => "i32" | .i64 => "i64" | .i128 => "i128"
  | .u8 => "u8" | .u16 => "u16" | .u32 => "u32" | .u64 => "u64" | .u128 => "u128"

def pFl (b d : List Char) : Option Fl := do
  let bits ← hexNat? b
  let disp ← unhex? d
  pure { bits := bits, disp := disp }

def hexByteList? : List Char → Option (List Nat)
  | [] => some []
  | [_] => none
  | a :: b :: r => do
    let x ← hexDigit? a
    let y ← hexDigit? b
    let rest ← hexByteList? r
    pure ((x * 16 + y) :: rest)

def nTimes {α} (n : Nat) (p : P α) : P (List α) := (List.range n).mapM (fun _ => p)

def pKey : P Str := do let k ← pfx 'k'; liftO (unhex? k)

partial def pSD : P SD := do
  let t ← tok
  match t.toList with
  | ['s', 'b', '0'] => pure (.bool false)
  | ['s', 'b', '1'] => pure (.bool true)
  | 's' :: 'i' :: ':' :: r =>
    match splitColon r with
    | [tg, n] => do
      let tg ← liftO (pIntTag (String.ofList tg)); let n ← liftO (String.ofList n).toInt?
      pure (.int tg n)
    | _ => failure
  | 's' :: 'f' :: '3' :: '2' :: ':' :: r =>
    match splitColon r with
    | [b, d] => do let f ← liftO (pFl b d); pure (.f32 f)
    | _ => failure
  | 's' :: 'f' :: '6' :: '4' :: ':' :: r =>
    match splitColon r with
    | [b, d] => do let f ← liftO (pFl b d); pure (.f64 f)
    | _ => failure
  | 's' :: 'c' :: r => do
    let s ← liftO (unhex? r)
    match s with
    | [c] => pure (.char c)
    | _ => failure
  | 's' :: 's' :: r => do let s ← liftO (unhex? r); pure (.str s)
  | 's' :: 'y' :: r => do let bs ← liftO (hexByteList? r); pure (.bytes bs)
  | ['s', 'n'] => pure .none
  | ['s', 'o'] => SD.some <$> pSD
  | ['s', 'u'] => pure .unit
  | ['s', 'U'] => pure .unitStruct
  | 's' :: 'v' :: r => do let s ← liftO (unhex? r); pure (.unitVariant s)
  | ['s', 'N'] => SD.newtypeStruct <$> pSD
  | 's' :: 'V' :: r => do let s ← liftO (unhex? r); let x ← pSD; pure (.newtypeVariant s x)
  | 's' :: 'q' :: r => do let n ← liftO (String.ofList r).toNat?; SD.seq <$> nTimes n pSD
  | 's' :: 't' :: r => do let n ← liftO (String.ofList r).toNat?; SD.tuple <$> nTimes n pSD
  | 's' :: 'T' :: r => do let n ← liftO (String.ofList r).toNat?; SD.tupleStruct <$> nTimes n pSD
  | 's' :: 'W' :: r =>
    match splitColon r with
    | [v, n] => do
      let v ← liftO (unhex? v); let n ← liftO (String.ofList n).toNat?
      SD.tupleVariant v <$> nTimes n pSD
    | _ => failure
  | 's' :: 'm' :: r => do
    let n ← liftO (String.ofList r).toNat?
    SD.map <$> nTimes n (do let k ← pSD; let v ← pSD; pure (k, v))
  | 's' :: 'S' :: r => do
    let n ← liftO (String.ofList r).toNat?
    SD.struct <$> nTimes n (do let k ← pKey; let v ← pSD; pure (k, v))
  | 's' :: 'X' :: r =>
    match splitColon r with
    | [v, n] => do
      let v ← liftO (unhex? v); let n ← liftO (String.ofList n).toNat?
      SD.structVariant v <$> nTimes n (do let k ← pKey; let x ← pSD; pure (k, x))
    | _ => failure
  | _ => failure

partial def encSD : SD → List String
  | .bool b => [if b then "sb1" else "sb0"]
  | .int t n => ["si:" ++ showIntTag t ++ ":" ++ toString n]
  | .f32 f => ["sf32:" ++ String.ofList (Nat.toDigits 16 f.bits) ++ ":" ++ hexOfStr f.disp]
  | .f64 f => ["sf64:" ++ String.ofList (Nat.toDigits 16 f.bits) ++ ":" ++ hexOfStr f.disp]
  | .char c => ["sc" ++ hexOfStr [c]]
  | .str s => ["ss" ++ hexOfStr s]
  | .bytes bs => ["sy" ++ String.ofList (bs.flatMap fun b => [hexChar (b / 16), hexChar (b % 16)])]
  | .none => ["sn"]
  | .some x => "so" :: encSD x
  | .unit => ["su"]
  | .unitStruct => ["sU"]
  | .unitVariant v => ["sv" ++ hexOfStr v]
  | .newtypeStruct x => "sN" :: encSD x
  | .newtypeVariant v x => ("sV" ++ hexOfStr v) :: encSD x
  | .seq xs => ("sq" ++ toString xs.length) :: xs.flatMap encSD
  | .tuple xs => ("st" ++ toString xs.length) :: xs.flatMap encSD
  | .tupleStruct xs => ("sT" ++ toString xs.length) :: xs.flatMap encSD
  | .tupleVariant v xs => ("sW" ++ hexOfStr v ++ ":" ++ toString xs.length) :: xs.flatMap encSD
  | .map kvs => ("sm" ++ toString kvs.length) :: kvs.flatMap fun (k, v) => encSD k ++ encSD v
  | .struct fs => ("sS" ++ toString fs.length) :: fs.flatMap fun (k, v) => ("k" ++ hexOfStr k) :: encSD v
  | .structVariant v fs =>
    ("sX" ++ hexOfStr v ++ ":" ++ toString fs.length) :: fs.flatMap fun (k, x) => ("k" ++ hexOfStr k) :: encSD x

/-- structural identity of SD trees as transmitted (floats by bits, display texts ignored) -/
def sdSame (a b : SD) : Bool :=
  let strip (ts : List String) : List String := ts.map fun t =>
    if t.startsWith "sf" then (match t.splitOn ":" with | [a, b, _] => a ++ ":" ++ b | _ => t) else t
  strip (encSD a) == strip (encSD b)

partial def pTD : P TD := do
  let t ← tok
  match t.toList with
  | ['t', 'b', '0'] => pure (.bool false)
  | ['t', 'b', '1'] => pure (.bool true)
  | 't' :: 'i' :: ':' :: r =>
    match splitColon r with
    | [tg, n] => do
      let tg ← liftO (pIntTag (String.ofList tg)); let n ← liftO (String.ofList n).toInt?
      pure (.int tg n)
    | _ => failure
  | 't' :: 'f' :: '3' :: '2' :: ':' :: r =>
    match splitColon r with
    | [b, d] => do let f ← liftO (pFl b d); pure (.f32 f)
    | _ => failure
  | 't' :: 'f' :: '6' :: '4' :: ':' :: r =>
    match splitColon r with
    | [b, d] => do let f ← liftO (pFl b d); pure (.f64 f)
    | _ => failure
  | 't' :: 's' :: r => do let s ← liftO (unhex? r); pure (.str s)
  | 't' :: 'D' :: r =>
    match splitColon r with
    | [l, o, d] => do
      let loc ← liftO (String.ofList l).toInt?; let off ← liftO (String.ofList o).toInt?
      let disp ← liftO (unhex? d)
      pure (.dt { loc := loc, off := off, disp := disp })
    | _ => failure
  | 't' :: 'Y' :: r =>
    match splitColon r with
    | [l, d] => do
      let days ← liftO (String.ofList l).toInt?; let disp ← liftO (unhex? d)
      pure (.date { days := days, disp := disp })
    | _ => failure
  | ['t', 'v'] => TD.val <$> pV
  | ['t', 'n'] => pure .none
  | ['t', 'o'] => TD.some <$> pTD
  | 't' :: 'q' :: r => do let n ← liftO (String.ofList r).toNat?; TD.vec <$> nTimes n pTD
  | 't' :: 'm' :: r => do
    let n ← liftO (String.ofList r).toNat?
    TD.map <$> nTimes n (do let k ← pKey; let v ← pTD; pure (k, v))
  | 't' :: 'S' :: r => do
    let n ← liftO (String.ofList r).toNat?
    TD.struct <$> nTimes n (do let k ← pKey; let v ← pTD; pure (k, v))
  | _ => failure

/-- oracle table `<n> (x<str> <D…|-> <Y…|->)*`; a string that is not in the table makes the
lookup return `none` *and* is reported (the harness must list every string of the datum). -/
structure OrcTable where
  rows : List (Str × Option DT × Option Dt)

def pOptDT : P (Option DT) := do
  let t ← tok
  if t == "-" then pure none else
  match t.toList with
  | 'D' :: r =>
    match splitColon r with
    | [l, o, d] => do
      let loc ← liftO (String.ofList l).toInt?; let off ← liftO (String.ofList o).toInt?
      let disp ← liftO (unhex? d)
      pure (some { loc := loc, off := off, disp := disp })
    | _ => failure
  | _ => failure

def pOptDate : P (Option Dt) := do
  let t ← tok
  if t == "-" then pure none else
  match t.toList with
  | 'Y' :: r =>
    match splitColon r with
    | [l, d] => do
      let days ← liftO (String.ofList l).toInt?; let disp ← liftO (unhex? d)
      pure (some { days := days, disp := disp })
    | _ => failure
  | _ => failure

def pOrc : P OrcTable := do
  let rows ← many (do let s ← pStr; let a ← pOptDT; let b ← pOptDate; pure (s, a, b))
  pure { rows := rows }

def OrcTable.oracle (t : OrcTable) : TextOracle :=
  { dt := fun s => match t.rows.find? (·.1 == s) with | some r => r.2.1 | none => none
    date := fun s => match t.rows.find? (·.1 == s) with | some r => r.2.2 | none => none }

mutual
/-- every text the model may ask the oracle about: string scalars and Display texts of dates -/
partial def textsOf : V → List Str
  | .sc (.str s) => [s]
  | .sc (.dt d) => [d.disp]
  | .sc (.date d) => [d.disp]
  | .arr xs => xs.flatMap textsOf
  | .obj kvs => kvs.flatMap fun (_, v) => textsOf v
  | _ => []
end

partial def textsOfSD : SD → List Str
  | .str s => [s]
  | .char c => [[c]]
  | .unitVariant v => [v]
  | .some x => textsOfSD x
  | .newtypeStruct x => textsOfSD x
  | .newtypeVariant _ x => textsOfSD x
  | .seq xs => xs.flatMap textsOfSD
  | .tuple xs => xs.flatMap textsOfSD
  | .tupleStruct xs => xs.flatMap textsOfSD
  | .tupleVariant _ xs => xs.flatMap textsOfSD
  | .map kvs => kvs.flatMap fun (_, v) => textsOfSD v
  | .struct fs => fs.flatMap fun (_, v) => textsOfSD v
  | .structVariant _ fs => fs.flatMap fun (_, v) => textsOfSD v
  | _ => []

def OrcTable.covers (t : OrcTable) (texts : List Str) : Bool :=
  texts.all fun s => t.rows.any (·.1 == s)

/-! ### observations -/

inductive CObs where
  | ok (v : V)
  | err (msg : Bool)
  | panic
  deriving Inhabited

def pCObs : P CObs := do
  match (← tok) with
  | "ok" => CObs.ok <$> pV
  | "err" => do let m ← tok; pure (.err (m == "msg"))
  | "PANIC" => do let _ ← tok; pure .panic
  | _ => failure

def showCObs : CObs → String
  | .ok v => "ok " ++ showV v
  | .err true => "err msg"
  | .err false => "err nomsg"
  | .panic => "PANIC"

/-- model outcome vs. observation, objects compared up to iteration order -/
def cobsMatches (r : Res V) (o : CObs) : Bool :=
  match r, o with
  | .ok v, .ok w => sameDatum v w
  | .err, .err true => true
  | .panic _, .panic => true
  | _, _ => false

/-- what every conversion op demands regardless of the model: no panic, errors carry a message -/
def cobsBad : CObs → Option String
  | .panic => some "no-panic"
  | .err false => some "error-has-message"
  | _ => none

structure Bundle where
  name : String
  v : V
  render : Str
  source : Str
  type : Str
  qs : String
  kstr : Str
  eqs : String
  toValue : V

def pBundle : P Bundle := do
  let name ← tok
  let v ← pV
  let render ← pStr
  let source ← pStr
  let type ← pStr
  let qs ← tok
  let kstr ← pStr
  let eqs ← tok
  let tv ← pV
  pure { name := name, v := v, render := render, source := source, type := type, qs := qs, kstr := kstr, eqs := eqs, toValue := tv }

def bit (b : Bool) : String := if b then "1" else "0"

def qsOf (v : V) : String :=
  bit (v.queryState .truthy) ++ bit (v.queryState .dflt) ++ bit (v.queryState .empty) ++ bit (v.queryState .blank)

/-- A view of datum `d` against the single definitions.  Returns `(semantic, reason)`:
`semantic = true` when the mismatch concerns kind / contents / truthiness / equality (the view
does not show the same datum: a violation of the property), `false` when only a text rendering
differs from the model's definition. -/
def checkBundle (d : V) (b : Bundle) : Option (Bool × String) :=
  if !(sameDatum b.v d) then some (true, b.name ++ ":contents")
  else if b.type != b.v.typeName then some (true, b.name ++ ":type_name")
  else if b.qs != qsOf b.v then some (true, b.name ++ ":query_state")
  else if !(sameDatum b.toValue d) then some (true, b.name ++ ":to_value")
  else if b.eqs != bit (valueEq b.v d) ++ bit (valueEq d b.v) then some (true, b.name ++ ":value_eq")
  else if b.toValue.same b.v && b.render != b.toValue.render then some (true, b.name ++ ":render-vs-owned")
  else if b.render != b.v.render then some (false, b.name ++ ":render")
  else if b.source != b.v.source then some (false, b.name ++ ":source")
  else if b.kstr != b.v.toKStr then some (false, b.name ++ ":to_kstr")
  else none

/-- two views with the very same structure (same order) must print the same -/
def bundlesDisagree (bs : List Bundle) : Option String :=
  match bs with
  | [] => none
  | b :: r =>
    match r.find? (fun c => c.v.same b.v && (c.render != b.render || c.source != b.source || c.kstr != b.kstr || c.type != b.type || c.qs != b.qs)) with
    | some c => some (b.name ++ "/" ++ c.name)
    | none => none

def firstSomeC12 {α β} (xs : List α) (f : α → Option β) : Option β :=
  match xs with
  | [] => none
  | x :: r => match f x with | some y => some y | none => firstSomeC12 r f

def arrow : P Unit := do
  let a ← tok
  if a != "=>" then failure

def verdict (kind : String) (spec : Option String) (modelOk : Bool) (model impl : String) : String :=
  match spec with
  | some law => "specfail " ++ kind ++ " law=" ++ law ++ " impl=" ++ impl
  | none => if modelOk then "ok " ++ kind else "diff " ++ kind ++ " model=" ++ model ++ " impl=" ++ impl

def showResVC (r : Res V) : String := showResV (r.bind fun v => .ok (canon v))

/-! ### the ops -/

/-- `views <datum> => views <n> bundle*` -/
def opViews (kind : String) : P String := do
  let d ← pV
  arrow
  let _ ← tok
  let bs ← many pBundle
  let probs := bs.filterMap (checkBundle d)
  let sem := probs.find? (·.1)
  let spec : Option String :=
    match sem with
    | some (_, why) => some ("views-agree:" ++ why)
    | none => (bundlesDisagree bs).map ("views-agree:" ++ ·)
  let txt := probs.find? (fun p => !p.1)
  pure (verdict kind spec txt.isNone (match txt with | some (_, w) => w | none => "-") ("views=" ++ toString bs.length))

/-- `tovalue <V> => obs` : `to_value(&v)` -/
def opToValue (kind : String) : P String := do
  let v ← pV
  arrow
  let o ← pCObs
  let r := toValueV v
  let spec : Option String :=
    (cobsBad o).orElse fun _ =>
      if wfWith scSer v then
        (match o with | .ok w => if sameDatum w v then none else some "roundtrip-to_value" | _ => some "roundtrip-to_value")
      else none
  pure (verdict kind spec (cobsMatches r o) (showResVC r) (showCObs o))

/-- `fromvalue <V> <orc> => obs` : `from_value::<Value>(&v)` -/
def opFromValue (kind : String) : P String := do
  let v ← pV
  let t ← pOrc
  arrow
  let o ← pCObs
  if !(t.covers (textsOf v)) then pure ("bad-op c12 oracle-table-incomplete " ++ kind) else
  let orc := t.oracle
  let r : Res V := .ok (fromValueV orc v)
  let spec : Option String :=
    (cobsBad o).orElse fun _ =>
      if wfWith (scFrom orc) v then
        (match o with | .ok w => if sameDatum w v then none else some "roundtrip-from_value" | _ => some "roundtrip-from_value")
      else none
  pure (verdict kind spec (cobsMatches r o) (showResVC r) (showCObs o))

/-- `json <V> <orc> => obs` : through serde_json text (or `serde_json::Value`) -/
def opJson (kind : String) : P String := do
  let v ← pV
  let t ← pOrc
  arrow
  let o ← pCObs
  if !(t.covers (textsOf v)) then pure ("bad-op c12 oracle-table-incomplete " ++ kind) else
  let orc := t.oracle
  let spec : Option String :=
    (cobsBad o).orElse fun _ =>
      if wfWith (scJson orc) v then
        (match o with | .ok w => if sameDatum w v then none else some "roundtrip-json" | _ => some "roundtrip-json")
      else none
  match viaJson orc v.toSD with
  | none => pure (verdict (kind ++ "(unmodelled)") spec true "-" (showCObs o))
  | some w => pure (verdict kind spec (cobsMatches (.ok w) o) (showResVC (.ok w)) (showCObs o))

/-- `valsd <V> => sd <SD>` : what `Value: Serialize` emits -/
def opValSD (kind : String) : P String := do
  let v ← pV
  arrow
  let _ ← tok
  let sd ← pSD
  let m := v.toSD
  pure (verdict kind none (sdSame m sd) (" ".intercalate (encSD m)) (" ".intercalate (encSD sd)))

/-- integer leaves of an SD tree, for the narrowing law -/
partial def intsOfSD : SD → List Int
  | .int _ n => [n]
  | .bytes bs => bs.map Int.ofNat
  | .some x => intsOfSD x
  | .newtypeStruct x => intsOfSD x
  | .newtypeVariant _ x => intsOfSD x
  | .seq xs => xs.flatMap intsOfSD
  | .tuple xs => xs.flatMap intsOfSD
  | .tupleStruct xs => xs.flatMap intsOfSD
  | .tupleVariant _ xs => xs.flatMap intsOfSD
  | .map kvs => kvs.flatMap fun (_, v) => intsOfSD v
  | .struct fs => fs.flatMap fun (_, v) => intsOfSD v
  | .structVariant _ fs => fs.flatMap fun (_, v) => intsOfSD v
  | _ => []

partial def intsOfV : V → List Int
  | .sc (.int i) => [i]
  | .arr xs => xs.flatMap intsOfV
  | .obj kvs => kvs.flatMap fun (_, v) => intsOfV v
  | _ => []

/-- "never turned into a different integer": every integer of the result is one of the input's -/
def narrowLaw (sd : SD) (o : CObs) : Option String :=
  match o with
  | .ok w => if (intsOfV w).all (fun i => (intsOfSD sd).contains i) then none else some "narrowing"
  | _ => none

/-- "a map key stays the key it was": when a Rust map whose keys are all integers or strings is
turned into an object, the object's keys are exactly the decimal texts of the integer keys / the
string keys themselves (a key turned into another number's text — e.g. a `u64` beyond `i64::MAX`
printed as a negative number — is a different key, not a rejected one) -/
def keyLaw (sd : SD) (o : CObs) : Option String :=
  match sd, o with
  | .map kvs, .ok (.obj okvs) =>
    let want : Option (List Str) := kvs.mapM fun (k, _) =>
      match k with
      | .int _ n => some (toString n).toList
      | .str s => some s
      | _ => none
    match want with
    | some ks =>
      if okvs.all (fun (k, _) => ks.contains k) && ks.all (fun k => okvs.any (fun (k', _) => k' == k)) then none
      else some "map-keys-preserved"
    | none => none
  | _, _ => none

/-- `ser <SD> => obs` : `to_value(&x)`;  `serobj` : `to_object(&x)`;  `sersc` : `to_scalar(&x)` -/
def opSer (kind : String) (which : Nat) : P String := do
  let sd ← pSD
  arrow
  let o ← pCObs
  let r : Res V :=
    match which with
    | 0 => serialize sd
    | 1 => (serializeObject sd).bind fun o => .ok (.obj o)
    | _ => (serializeScalar sd).bind fun s => .ok (.sc s)
  let spec := ((cobsBad o).orElse fun _ => narrowLaw sd o).orElse fun _ => (if which == 2 then none else keyLaw sd o)
  pure (verdict kind spec (cobsMatches r o) (showResVC r) (showCObs o))

/-- `serjson <SD> <orc> => obs` : `serde_json::to_string(&x)` then `from_str::<Value>` -/
def opSerJson (kind : String) : P String := do
  let sd ← pSD
  let t ← pOrc
  arrow
  let o ← pCObs
  if !(t.covers (textsOfSD sd)) then pure ("bad-op c12 oracle-table-incomplete " ++ kind) else
  let orc := t.oracle
  let spec := (cobsBad o).orElse fun _ => narrowLaw sd o
  match viaJson orc sd with
  | none => pure (verdict (kind ++ "(unmodelled)") spec true "-" (showCObs o))
  | some w => pure (verdict kind spec (cobsMatches (.ok w) o) (showResVC (.ok w)) (showCObs o))

/-- `td <TD> => td <SD> <bundle> <obs to_value(&x)> <obs to_object(&x) | ->` -/
def opTD (kind : String) : P String := do
  let x ← pTD
  arrow
  let _ ← tok
  let sd ← pSD
  let b ← pBundle
  let ov ← pCObs
  let hasObj ← tok
  let oo : Option CObs ← (if hasObj == "+" then some <$> pCObs else if hasObj == "-" then pure none else failure)
  let view := x.view
  -- spec: derived view and serde conversion show the same datum (on the theorem's domain)
  let spec : Option String :=
    (cobsBad ov).orElse fun _ =>
    (match oo with | some o => cobsBad o | none => none).orElse fun _ =>
    if tdWf x then
      (match ov with
       | .ok w => if sameDatum w b.v then none else some "derive-eq-serde:to_value"
       | _ => some "derive-eq-serde:to_value").orElse fun _ =>
      (match oo with
       | some (.ok w) => if sameDatum w b.v then none else some "derive-eq-serde:to_object"
       | some _ => some "derive-eq-serde:to_object"
       | none => none).orElse fun _ =>
      (match checkBundle b.v b with | some (true, why) => some ("views-agree:" ++ why) | _ => none)
    else none
  -- model
  let m1 := sdSame x.toSD sd
  let m2 := checkBundle view b
  let m3 := cobsMatches (serialize sd) ov
  let m4 := match oo with
    | some o => cobsMatches ((serializeObject sd).bind fun o => .ok (.obj o)) o
    | none => true
  let why := if !m1 then "toSD " ++ " ".intercalate (encSD x.toSD)
    else match m2 with
      | some (_, w) => "view " ++ w ++ " " ++ showV (canon view)
      | none => if !m3 then "to_value " ++ showResVC (serialize sd) else "to_object"
  pure (verdict kind spec (m1 && m2.isNone && m3 && m4) why
    ("sd=" ++ " ".intercalate (encSD sd) ++ " view=" ++ showV (canon b.v) ++ " to_value=" ++ showCObs ov))

/-- `typedrt <SD> => eq|ne|err|toerr` : `from_value::<T>(&to_value(&x)?) == x`.
Spec: the typed round trip gives the original back or an error, never a different datum, except
where serde's `Option` cannot tell `Some(None)`/`Some(())` from `None` (kind `…:optcollapse`). -/
def opTypedRt (kind : String) : P String := do
  let sd ← pSD
  arrow
  let o ← tok
  let spec : Option String :=
    if o == "PANIC" then some "no-panic"
    else if o == "ne" && !((kind.splitOn ":").contains "optcollapse") then some "typed-roundtrip-never-different" else none
  let serOk := (serialize sd).isOk
  let modelOk := if !serOk then o == "toerr" else o != "toerr"
  pure (verdict kind spec modelOk (if serOk then "eq|err" else "toerr") o)

def c12Op (args : List String) : String :=
  match args with
  | [] => "bad-op c12"
  | kind :: rest =>
    let sub := (kind.splitOn ":").headD ""
    -- `?` is how the harness writes a view that is none of nil / state / scalar / array / object
    if rest.contains "?" then "specfail " ++ kind ++ " law=a-view-has-exactly-one-kind impl=unclassifiable-view" else
    let p : Option (P String) :=
      match sub with
      | "views" | "witness-views" => some (opViews kind)
      | "tovalue" | "witness-date" | "witness-state" => some (opToValue kind)
      | "fromvalue" | "witness-numstr" | "witness-datestr" => some (opFromValue kind)
      | "json" | "jsonv" | "witness-nan" => some (opJson kind)
      | "valsd" => some (opValSD kind)
      | "ser" => some (opSer kind 0)
      | "serobj" => some (opSer kind 1)
      | "sersc" => some (opSer kind 2)
      | "serjson" => some (opSerJson kind)
      | "td" | "witness-tddate" | "witness-rawident" | "witness-f32" => some (opTD kind)
      | "typedrt" => some (opTypedRt kind)
      | _ => none
    match p with
    | none => "bad-op c12 " ++ kind
    | some p =>
      match run p rest with
      | some (s, []) => s
      | _ => "bad-op c12 parse " ++ kind

/-- `c12t <kind> <TD struct> <Tmpl> <tag> <payload> <tag> <payload> [#src]`: a template rendered with
the derived struct as globals and with `to_object(&x)` as globals. -/
def c12tOp (args : List String) : String :=
  let p : P String := do
    let kind ← tok
    let x ← pTD
    let t ← pTmpl
    let tag1 ← tok; let pay1 ← tok
    let tag2 ← tok; let pay2 ← tok
    let rest ← get
    match rest with
    | [c] => if c.startsWith "#" then set ([] : List String) else pure ()
    | _ => pure ()
    match x with
    | .struct fs =>
      let env : Env := Env.ofList [] baseFilters
      let r1 := renderTop defaultFuel env t (tdViewF fs)
      let r2 : Res Str := (serializeObject x.toSD).bind fun o => renderTop defaultFuel env t o
      let spec : Option String :=
        if tag1 == "PANIC" || tag2 == "PANIC" then some "no-panic"
        else if tdWf x && !(tag1 == tag2 && pay1 == pay2) then some "derive-eq-serde:template" else none
      pure (verdict kind spec (obsMatches r1 tag1 pay1 && obsMatches r2 tag2 pay2)
        (showRes r1 ++ " / " ++ showRes r2) (tag1 ++ " " ++ pay1 ++ " / " ++ tag2 ++ " " ++ pay2))
    | _ => failure
  match run p args with
  | some (s, []) => s
  | _ => "bad-op c12t"

end Liquid.Drv.C12
