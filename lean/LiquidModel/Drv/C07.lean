/-
  `lit` op (C07): a literal's source text, the implementation's rendering of `{{ <text> }}`.
-/
import LiquidModel.Drv.Render
import LiquidModel.Model.Literal
namespace Liquid.Drv
open Liquid Liquid.Codec

def litOp (args : List String) : String :=
  let p : P (String × Str × Option Str × String × String) := do
    let kind ← tok
    let text ← pStr
    let exp ← (do
      match (← get) with
      | "-" :: r => set r; pure none
      | _ => some <$> pStr)
    let arrow ← tok
    if arrow != "=>" then failure
    let tag ← tok; let pay ← tok
    pure (kind, text, exp, tag, pay)
  match run p args with
  | some ((kind, text, exp, tag, pay), []) =>
    if tag == "PANIC" then "specfail " ++ kind ++ " law=no-panic" else
    match exp with
    | some e =>
      -- float literal: conversion is external; the harness supplies Rust's own parse+Display
      if tag == "ok" && pay == xstr e then "ok " ++ kind else "specfail " ++ kind ++ " law=float-literal-denotes impl=" ++ tag ++ " " ++ pay
    | none =>
      match parseLiteral text with
      | .value v => if tag == "ok" && pay == xstr v.render then "ok " ++ kind
                    else "specfail " ++ kind ++ " law=literal-denotes model=" ++ xstr v.render ++ " impl=" ++ tag ++ " " ++ pay
      | .outOfRange => if tag == "perr" && pay == "msg" then "ok " ++ kind
                       else "specfail " ++ kind ++ " law=out-of-range-is-error impl=" ++ tag ++ " " ++ pay
      | .notALiteral => "bad-op lit-not-a-literal"
  | _ => "bad-op lit"

/-- `findapi <kind> <V> <n> <V>*n => ok <V> | err | PANIC`: the public `liquid_core::model::find` called
directly on a value with a path of scalars (also with a first key that does not exist) -/
def findApiOp (args : List String) : String :=
  let p : P (String × V × List V) := do
    let kind ← tok; let v ← pV; let n ← pNat
    let path ← (List.range n).mapM fun _ => pV
    let arrow ← tok
    if arrow != "=>" then failure
    pure (kind, v, path)
  match run p args with
  | some ((kind, v, path), obs) =>
    if obs == ["PANIC", "-"] || obs == ["PANIC"] then "specfail " ++ kind ++ " law=find-never-panics" else
    let scs := path.filterMap fun x => match x with | .sc s => some s | _ => none
    if scs.length != path.length then "bad-op findapi path" else
    let m : List String := match find v scs with
      | .ok r => "ok" :: encVSorted r
      | .err => ["err"]
      | .panic _ => ["PANIC"]
      | _ => ["?"]
    if m == obs then "ok " ++ kind else "diff " ++ kind ++ " model=" ++ " ".intercalate m ++ " impl=" ++ " ".intercalate obs
  | none => "bad-op findapi"

/-- `law <kind> <name> ok|fail x<detail>`: a law of a property evaluated by the harness directly on the
implementation (two API calls that must agree, …) -/
def lawOp (args : List String) : String :=
  match args with
  | [kind, name, "ok", _] => "ok " ++ kind ++ " " ++ name
  | [kind, name, "fail", detail] => "specfail " ++ kind ++ " law=" ++ name ++ " detail=" ++ detail
  | _ => "bad-op law"

end Liquid.Drv
