/-
  `lit` op (C07): a literal's source text, the implementation's rendering of `{{ <text> }}`.
-/
import LiquidModel.Drv.Render
import LiquidModel.Model.Literal
namespace Liquid.Drv
open Liquid Liquid.Codec

def litOp (args : List String) : String :=
  let p : P (String × Str × Option Str × String × String) := do
    let kind ← tok
    let text ← pStr
    let exp ← (do
      match (← get) with
      | "-" :: r => set r; pure none
      | _ => some <$> pStr)
    let arrow ← tok
    if arrow != "=>" then failure
    let tag ← tok; let pay ← tok
    pure (kind, text, exp, tag, pay)
  match run p args with
  | some ((kind, text, exp, tag, pay), []) =>
    if tag == "PANIC" then "specfail " ++ kind ++ " law=no-panic" else
    match exp with
    | some e =>
      -- float literal: conversion is external; the harness supplies Rust's own parse+Display
      if tag == "ok" && pay == xstr e then "ok " ++ kind else "specfail " ++ kind ++ " law=float-literal-denotes impl=" ++ tag ++ " " ++ pay
    | none =>
      match parseLiteral text with
      | .value v => if tag == "ok" && pay == xstr v.render then "ok " ++ kind
                    else "specfail " ++ kind ++ " law=literal-denotes model=" ++ xstr v.render ++ " impl=" ++ tag ++ " " ++ pay
      | .outOfRange => if tag == "perr" && pay == "msg" then "ok " ++ kind
                       else "specfail " ++ kind ++ " law=out-of-range-is-error impl=" ++ tag ++ " " ++ pay
      | .notALiteral => "bad-op lit-not-a-literal"
  | _ => "bad-op lit"

end Liquid.Drv
