import LiquidModel.Drv.Render
namespace Liquid.Drv
open Liquid Liquid.Codec

/-- `c04` = `render`, plus the spec that the caller's data object was not modified (the harness
compares the serialised data before and after and labels the case). -/
def c04Op (args : List String) : String :=
  match args with
  | "DATA-MODIFIED" :: _ => "specfail DATA-MODIFIED law=caller-data-untouched"
  | _ => renderOp baseFilters args

end Liquid.Drv
