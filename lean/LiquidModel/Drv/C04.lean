import LiquidModel.Drv.Render
namespace Liquid.Drv
open Liquid Liquid.Codec

/-- `c04` = `render`, plus the spec that the caller's data object was not modified (the harness
compares the serialised data before and after and labels the case). -/
def c04Op (args : List String) : String :=
  match args with
  | "DATA-MODIFIED" :: _ => "specfail DATA-MODIFIED law=caller-data-untouched"
  | kind :: _ =>
    let b := (kind.splitOn ":").headD ""
    if b == "PERSIST" then "specfail " ++ kind ++ " law=assign-and-capture-bind-for-the-rest-of-the-render"
    else if b == "SCOPED" then "specfail " ++ kind ++ " law=loop-variable-and-argument-visible-only-inside"
    else if b == "SHADOW" then "specfail " ++ kind ++ " law=a-rebound-name-hides-the-callers-datum-and-its-sub-paths"
    else if b == "UNBOUND" then "specfail " ++ kind ++ " law=a-name-nobody-binds-does-not-exist"
    else if b == "CAPTURE" then "specfail " ++ kind ++ " law=capture-binds-exactly-the-body-text"
    else renderOp baseFilters args
  | _ => renderOp baseFilters args

end Liquid.Drv
