/-
  `stack` op (C18): replay an operation sequence on the frame-stack model, observe after every
  operation exactly what the harness observes, compare; and evaluate the state-local laws
  (get/try_get agreement, roots exactness) directly on the implementation's observations.
-/
import LiquidModel.Drv.Codec
namespace Liquid.Drv
open Liquid Liquid.Codec

inductive SOp where
  | plain (d : Obj) | sandbox (d : Obj) | global | pop
  | setGlobal (k : Str) (v : V) | setIndex (k : Str) (v : V)

def pSOp : P SOp := do
  match (← tok) with
  | "Pp" => SOp.plain <$> pObj
  | "Ps" => SOp.sandbox <$> pObj
  | "Pg" => pure .global
  | "Po" => pure .pop
  | "Sg" => do let k ← pStr; let v ← pV; pure (.setGlobal k v)
  | "Si" => do let k ← pStr; let v ← pV; pure (.setIndex k v)
  | _ => failure

def c18Names : List Str := ["a".toList, "b".toList]
def c18Paths : List (List Sc) :=
  c18Names.map (fun a => [Sc.str a]) ++
  c18Names.flatMap (fun a => ["a", "b", "size"].map fun b => [Sc.str a, Sc.str b.toList])

def dedupSorted : List Str → List Str
  | a :: b :: r => if a == b then dedupSorted (b :: r) else a :: dedupSorted (b :: r)
  | l => l

def observeModel (st : Stack) : List String :=
  let perPath := c18Paths.flatMap fun p =>
    (match st.tryGet p with | some v => encVSorted v | none => ["-"]) ++
    (match st.get p with
      | .ok v => "ok" :: encVSorted v
      | .err => ["err"]
      | .panic _ => ["PANIC"]
      | _ => ["?"])
  let roots := dedupSorted (st.roots.mergeSort (fun a b => strCmp a b != .gt))
  let rootsTok := "r" ++ ",".intercalate (roots.map hexOfStr)
  let ctr := c18Names.flatMap fun k => match st.getIndex k with | some v => encVSorted v | none => ["-"]
  ["@"] ++ perPath ++ [rootsTok] ++ ctr

def applyOp (st : Stack) : SOp → Option Stack
  | .plain d => some (.plain d :: st)
  | .sandbox d => some (.sandbox d {} :: st)
  | .global => some (.global [] :: st)
  | .pop => some st.tail
  | .setGlobal k v => (match st.setGlobal k v with | .ok s => some s | _ => none)
  | .setIndex k v => (match st.setIndex k v with | .ok s => some s | _ => none)

def simulate (st : Stack) : List SOp → List String
  | [] => observeModel st
  | op :: r =>
    observeModel st ++ (match applyOp st op with
      | some st' => simulate st' r
      | none => ["MODEL-PANIC"])

/-- parse one observation block of the implementation and check the state-local laws on it -/
def pOptV : P (Option V) := do
  match (← get) with
  | "-" :: r => set r; pure none
  | _ => some <$> pV

def pGetRes : P (Option V) := do
  match (← tok) with
  | "ok" => some <$> pV
  | "err" => pure none
  | _ => failure

def checkBlock : P (Option String) := do
  let at_ ← tok
  if at_ != "@" then failure
  let rs ← c18Paths.mapM fun _ => do let t ← pOptV; let g ← pGetRes; pure (t, g)
  let rootsTok ← tok
  let _ ← c18Names.mapM fun _ => pOptV
  let roots := ((rootsTok.drop 1).toString.splitOn ",").filter (· ≠ "")
  -- law 1: failing and optional lookup agree
  let bad1 := rs.any fun (t, g) => match t, g with
    | some a, some b => !a.same b
    | none, none => false
    | _, _ => true
  -- law 2: roots are exactly the names that resolve
  let bad2 := (c18Names.zip (rs.take 2)).any fun (k, (t, _)) => (roots.contains (hexOfStr k)) != t.isSome
  pure (if bad1 then some "get-tryget-agree" else if bad2 then some "roots-exact" else none)

partial def checkBlocks : P (Option String) := do
  match (← get) with
  | [] => pure none
  | _ => do
    match (← checkBlock) with
    | some l => pure (some l)
    | none => checkBlocks

def stackOp (args : List String) : String :=
  let p : P (String × Obj × List SOp) := do
    let kind ← tok; let base ← pObj; let ops ← many pSOp
    let arrow ← tok
    if arrow != "=>" then failure
    pure (kind, base, ops)
  match run p args with
  | some ((kind, base, ops), obs) =>
    if obs == ["PANIC"] then "specfail " ++ kind ++ " law=no-panic" else
    match run checkBlocks obs with
    | some (some law, _) => "specfail " ++ kind ++ " law=" ++ law
    | none => "bad-op stack-observation"
    | some (none, _) =>
      let m := simulate (Rt.build base).layers ops
      if m == obs then "ok " ++ kind
      else "diff " ++ kind ++ " model=" ++ " ".intercalate m
  | none => "bad-op stack"

end Liquid.Drv
