/-
  `stack` op (C18): replay an operation sequence on the frame-stack model, observe after every
  operation exactly what the harness observes, compare; and evaluate the state-local laws
  (get/try_get agreement, roots exactness) directly on the implementation's observations.
-/
import LiquidModel.Drv.Codec
namespace Liquid.Drv
open Liquid Liquid.Codec

inductive SOp where
  | plain (d : Obj) | sandbox (d : Obj) | global | pop
  | setGlobal (k : Str) (v : V) | setIndex (k : Str) (v : V)

def pSOp : P SOp := do
  match (← tok) with
  | "Pp" => SOp.plain <$> pObj
  | "Ps" => SOp.sandbox <$> pObj
  | "Pg" => pure .global
  | "Po" => pure .pop
  | "Sg" => do let k ← pStr; let v ← pV; pure (.setGlobal k v)
  | "Si" => do let k ← pStr; let v ← pV; pure (.setIndex k v)
  | _ => failure

def c18Names : List Str := ["a".toList, "b".toList]
def c18Paths : List (List Sc) :=
  c18Names.map (fun a => [Sc.str a]) ++
  ["size", "first"].map (fun a => [Sc.str a.toList]) ++
  c18Names.flatMap (fun a => ["a", "b", "size"].map fun b => [Sc.str a, Sc.str b.toList])

def dedupSorted : List Str → List Str
  | a :: b :: r => if a == b then dedupSorted (b :: r) else a :: dedupSorted (b :: r)
  | l => l

def observeModel (st : Stack) : List String :=
  let perPath := c18Paths.flatMap fun p =>
    (match st.tryGet p with | some v => encVSorted v | none => ["-"]) ++
    (match st.get p with
      | .ok v => "ok" :: encVSorted v
      | .err => ["err"]
      | .panic _ => ["PANIC"]
      | _ => ["?"])
  let roots := dedupSorted (st.roots.mergeSort (fun a b => strCmp a b != .gt))
  let rootsTok := "r" ++ ",".intercalate (roots.map hexOfStr)
  let ctr := c18Names.flatMap fun k => match st.getIndex k with | some v => encVSorted v | none => ["-"]
  ["@"] ++ perPath ++ [rootsTok] ++ ctr

def applyOp (st : Stack) : SOp → Option Stack
  | .plain d => some (.plain d :: st)
  | .sandbox d => some (.sandbox d {} :: st)
  | .global => some (.global [] :: st)
  | .pop => some st.tail
  | .setGlobal k v => (match st.setGlobal k v with | .ok s => some s | _ => none)
  | .setIndex k v => (match st.setIndex k v with | .ok s => some s | _ => none)

def simulate (st : Stack) : List SOp → List String
  | [] => observeModel st
  | op :: r =>
    observeModel st ++ (match applyOp st op with
      | some st' => simulate st' r
      | none => ["MODEL-PANIC"])

/-- parse one observation block of the implementation and check the state-local laws on it -/
def pOptV : P (Option V) := do
  match (← get) with
  | "-" :: r => set r; pure none
  | _ => some <$> pV

def pGetRes : P (Option V) := do
  match (← tok) with
  | "ok" => some <$> pV
  | "err" => pure none
  | _ => failure

def checkBlock : P (Option String × List (Option V) × List (Option V)) := do
  let at_ ← tok
  if at_ != "@" then failure
  let rs ← c18Paths.mapM fun _ => do let t ← pOptV; let g ← pGetRes; pure (t, g)
  let rootsTok ← tok
  let ctrs ← c18Names.mapM fun _ => pOptV
  let roots := ((rootsTok.drop 1).toString.splitOn ",").filter (· ≠ "")
  -- law 1: failing and optional lookup agree
  let bad1 := rs.any fun (t, g) => match t, g with
    | some a, some b => !a.same b
    | none, none => false
    | _, _ => true
  -- law 2: roots are exactly the names that resolve
  let bad2 := (c18Names.zip (rs.take 2)).any fun (k, (t, _)) => (roots.contains (hexOfStr k)) != t.isSome
  pure (if bad1 then some "get-tryget-agree" else if bad2 then some "roots-exact" else none, ctrs, (rs.take 2).map (·.1))

/-- all blocks: the first violated state-local law, the counters and the values of the bare names
seen in every block -/
partial def checkBlocks : P (Option String × List (List (Option V)) × List (List (Option V))) := do
  match (← get) with
  | [] => pure (none, [], [])
  | _ => do
    let (l, c, n) ← checkBlock
    match l with
    | some l => pure (some l, [c], [n])
    | none => do
      let (l', cs, ns) ← checkBlocks
      pure (l', c :: cs, n :: ns)

/-- law 3, across the whole history: counters live in ONE place shared by all layers — after
`set_index k v` every layer, at any depth and on either side of a sandboxed layer, reads `v` for `k`
until it is set again; pushing and dropping layers never changes a counter -/
def specCounters (ops : List SOp) : List (List (Option V)) :=
  let step (m : List (Str × V)) (op : SOp) : List (Str × V) :=
    match op with
    | .setIndex k v => (k, v) :: m.filter (fun kv => kv.1 != k)
    | _ => m
  let rec go (m : List (Str × V)) : List SOp → List (List (Str × V))
    | [] => [m]
    | op :: r => m :: go (step m op) r
  (go [] ops).map fun m => c18Names.map fun k => (m.find? (fun kv => kv.1 == k)).map (·.2)

def sameCtr (a b : Option V) : Bool :=
  match a, b with
  | none, none => true
  | some x, some y => x.same y
  | _, _ => false

def countersShared (ops : List SOp) (seen : List (List (Option V))) : Bool :=
  (seen.zip (specCounters ops)).all fun (a, b) => a.length == b.length && (a.zip b).all fun (x, y) => sameCtr x y

/-- law 4, across the whole history: **an assignment is seen.**  Right after `set_global k v`, made
from the top of the stack, the bare name `k` read from that same place is `v` itself (same kind, same
contents) — unless a plain frame between the top and the receiving global layer binds `k` (it
shadows) or a sandboxed frame lies in between (it hides what is below); those cases are left to the
model comparison.  Open frames are tracked from the operations alone. -/
def assignSeen (ops : List SOp) (names : List (List (Option V))) : Bool :=
  -- frames, top first: `some keys` = plain frame binding `keys`; `none` = global layer; sandbox = barrier
  let rec go (frames : List (Option (Option (List Str)))) (i : Nat) : List SOp → Bool
    | [] => true
    | op :: r =>
      let ok : Bool :=
        match op with
        | .setGlobal k v =>
          let rec reach : List (Option (Option (List Str))) → Option Bool   -- some true = expect, some false = skip
            | [] => some true                                  -- the base runtime's own global layer
            | none :: _ => some false                          -- sandboxed frame: skip
            | some none :: _ => some true                      -- a global layer
            | some (some keys) :: rest => if keys.contains k then some false else reach rest
          match reach frames with
          | some true =>
            (match c18Names.idxOf? k, names[i + 1]? with
             | some j, some row => (match row[j]? with | some (some x) => x.same v | _ => false)
             | _, _ => true)
          | _ => true
        | _ => true
      let frames' : List (Option (Option (List Str))) :=
        match op with
        | .plain d => some (some (d.map (·.1))) :: frames
        | .sandbox _ => none :: frames
        | .global => some none :: frames
        | .pop => frames.tail
        | _ => frames
      ok && go frames' (i + 1) r
  go [] 0 ops

def stackOp (args : List String) : String :=
  let p : P (String × Obj × List SOp) := do
    let kind ← tok; let base ← pObj; let ops ← many pSOp
    let arrow ← tok
    if arrow != "=>" then failure
    pure (kind, base, ops)
  match run p args with
  | some ((kind, base, ops), obs) =>
    if obs == ["PANIC"] then "specfail " ++ kind ++ " law=no-panic" else
    match run checkBlocks obs with
    | some ((some law, _, _), _) => "specfail " ++ kind ++ " law=" ++ law
    | none => "bad-op stack-observation"
    | some ((none, seen, names), _) =>
      if !countersShared ops seen then "specfail " ++ kind ++ " law=counters-shared-by-all-layers" else
      if !assignSeen ops names then "specfail " ++ kind ++ " law=an-assignment-is-seen-as-the-value-assigned" else
      let m := simulate (Rt.build base).layers ops
      if m == obs then "ok " ++ kind
      else "diff " ++ kind ++ " model=" ++ " ".intercalate m
  | none => "bad-op stack"

end Liquid.Drv
