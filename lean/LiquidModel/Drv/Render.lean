/-
  `render` op: run the interpreter on the transmitted AST/data/partials and compare with the
  implementation's observation.
-/
import LiquidModel.Drv.Codec
namespace Liquid.Drv
open Liquid Liquid.Codec

def defaultFuel : Nat := 64

/-- filters known to the interpreter (extended by the filter models). -/
def baseFilters : Str → Option (V → List V → Res V) := fun _ => none

structure RenderCase where
  kind : String
  tmpl : Tmpl
  data : Obj
  partials : List (Str × Option Tmpl)
  obsTag : String
  obsPayload : String

def pRenderCase : P RenderCase := do
  let kind ← tok
  let t ← pTmpl
  let d ← pObj
  let ps ← pPartials
  let tag ← tok
  let pay ← tok
  -- optional trailing `#x<hex of the liquid source>` (for humans; ignored here)
  let rest ← get
  match rest with
  | [c] => if c.startsWith "#" then set ([] : List String) else pure ()
  | _ => pure ()
  pure { kind := kind, tmpl := t, data := d, partials := ps, obsTag := tag, obsPayload := pay }

def showRes (r : Res Str) : String :=
  match r with
  | .ok s => "ok " ++ xstr s
  | .err => "err msg"
  | .io => "io -"
  | .panic s => "PANIC " ++ s.replace " " "_"
  | .fuel => "FUEL -"

/-- does the observation match the model outcome? (`err` must carry a message) -/
def obsMatches (r : Res Str) (tag pay : String) : Bool :=
  match r with
  | .ok s => tag == "ok" && pay == xstr s
  | .err => tag == "err" && pay == "msg"
  | .panic _ => tag == "PANIC"
  | _ => false

def renderOp (filters : Str → Option (V → List V → Res V)) (args : List String) : String :=
  match run pRenderCase args with
  | some (c, []) =>
    let env : Env := Env.ofList c.partials filters
    let r := renderTop defaultFuel env c.tmpl c.data
    if obsMatches r c.obsTag c.obsPayload then "ok " ++ c.kind
    else "diff " ++ c.kind ++ " model=" ++ showRes r ++ " impl=" ++ c.obsTag ++ " " ++ c.obsPayload
  | _ => "bad-op render"

end Liquid.Drv
