import LiquidModel.Drv.Render
namespace Liquid.Drv
open Liquid Liquid.Codec

/-- `c09` / `c19` / `c20`: the harness compares what the implementation returned in a history /
under another policy / under concurrency with its own sequential fresh-parser result and labels the
case; a label other than the neutral ones is a violation of the property's spec by itself.  The
observation is then compared with the interpreter model like any `render` case. -/
def labelledRenderOp (lawOf : String → Option String) (args : List String) : String :=
  match args with
  | kind :: _ =>
    match lawOf ((kind.splitOn ":").headD "") with
    | some law => "specfail " ++ kind ++ " law=" ++ law
    | none => renderOp baseFilters args
  | [] => "bad-op labelled"

/-- `c08`: metamorphic laws evaluated by the harness on the implementation alone -/
def c08Op := labelledRenderOp fun k =>
  if k == "ISOLATION" then some "render-changed-the-callers-variables"
  else if k == "ARGS-ONLY" then some "render-output-depends-on-the-caller"
  else if k == "FOR-AS" then some "render-for-iterations-are-not-independent-renders"
  else if k == "STANDALONE" then some "a-rendered-partial-sees-exactly-its-arguments"
  else if k == "NAME-SCOPE" then some "the-partial-name-is-evaluated-in-the-callers-scope"
  else if k == "REBIND" then some "a-name-rebound-inside-a-partial-is-rebound-completely"
  else if k == "DYN-NAME" then some "a-tag-with-a-variable-name-uses-the-partial-named-now" else none
/-- `c07r`: a path case labelled by the harness's reference resolution of the path -/
def c07rOp := labelledRenderOp fun k =>
  if k == "PATHLAW" then some "a-path-denotes-what-the-statement-says-or-fails" else none
/-- `c09x`: like `c09`, but the template uses filters the interpreter model is not run with: only the
harness's own verdict (same result as on a fresh parser) counts -/
def c09xOp (args : List String) : String :=
  match args with
  | kind :: _ =>
    let k := (kind.splitOn ":").headD ""
    if k == "LEAK" then "specfail " ++ kind ++ " law=result-depends-on-history"
    else if k == "DATA-MODIFIED" then "specfail " ++ kind ++ " law=caller-data-untouched"
    else "ok " ++ kind
  | [] => "bad-op c09x"
def c09Op := labelledRenderOp fun k =>
  if k == "LEAK" then some "result-depends-on-history" else if k == "DATA-MODIFIED" then some "caller-data-untouched" else none
def c19Op := labelledRenderOp fun k =>
  if k == "POLICIES-DIFFER" then some "eager-lazy-ondemand-agree" else if k == "BUILD-FAILED" then some "building-never-fails" else none
def c20Op := labelledRenderOp fun k =>
  if k == "MISMATCH" then some "concurrent-result-equals-sequential" else if k == "DEADLOCK" then some "no-deadlock"
  else if k == "POISONED" then some "no-poisoning" else none

end Liquid.Drv
