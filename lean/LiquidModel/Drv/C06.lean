import LiquidModel.Drv.Render
import LiquidModel.Spec.C06
namespace Liquid.Drv
open Liquid Liquid.Codec

/-- independent expectation for the structured kinds; `none` = only "exactly one marker" applies -/
def c06Expected (kind : String) (data : Obj) : Option Str :=
  match kind.splitOn ":" with
  | ["chain", arms, e] => do let a ← arms.toNat?; pure (C06.specChain data a (e == "1"))
  | ["andor", len, conn] => do
    let l ← len.toNat?; let c ← conn.toNat?
    pure (if C06.specAndOr data l c then ['T'] else ['F'])
  | ["unless", e] => some (if C06.flag data 0 then (if e == "1" then ['E'] else []) else ['U'])
  | _ => none

/-- `case`: the body of the first `when` arm one of whose values equals the target, else the `else`
body, else nothing — computed directly from the statement of the property (`none` when some value
does not evaluate) -/
def c06CaseSpec (t : Tmpl) (data : Obj) : Option Str :=
  match t with
  | [.case_ target arms els] =>
    let st : Stack := (Rt.build data).layers
    let bodyText : List Node → Option Str
      | [] => some []
      | [.text s] => some s
      | _ => none
    match target.eval st with
    | .ok tv =>
      let evalAll := arms.all fun (vals, _) => vals.all fun e => (e.eval st).isOk
      if !evalAll then none else
      match arms.find? (fun (vals, _) => vals.any fun e => match e.eval st with | .ok v => valueEq v tv | _ => false) with
      | some (_, body) => bodyText body
      | none => match els with
        | some b => bodyText b
        | none => some []
    | _ => none
  | _ => none

def c06Op (args : List String) : String :=
  match run pRenderCase args with
  | some (c, []) =>
    let env : Env := Env.ofList c.partials baseFilters
    let r := renderTop defaultFuel env c.tmpl c.data
    let bucket := (c.kind.splitOn ":").headD ""
    -- spec 1: structured expectation
    let bad1 := match (if bucket == "case" then c06CaseSpec c.tmpl c.data else c06Expected c.kind c.data) with
      | some s => !(c.obsTag == "ok" && c.obsPayload == xstr s)
      | none => false
    -- spec 2: a two-way conditional prints exactly one of its two markers (or fails with an error)
    let twoWay := ["op-var", "op-lit", "op-mixed", "truthy-var", "truthy-lit", "truthy-path", "andor"].contains bucket
    let bad2 := twoWay && !(c.obsTag == "err" || (c.obsTag == "ok" && (c.obsPayload == xstr ['T'] || c.obsPayload == xstr ['F'])))
    -- spec 3: the harness's own left-to-right evaluation of a chain with an operand that would raise
    let wantTok : Option String := if bucket == "short" then ((c.kind.splitOn "want=").getLast?) else none
    let bad3 := match wantTok with
      | some "T" => !(c.obsTag == "ok" && c.obsPayload == xstr ['T'])
      | some "F" => !(c.obsTag == "ok" && c.obsPayload == xstr ['F'])
      | some "err" => c.obsTag != "err"
      | _ => false
    if bad3 then "specfail " ++ c.kind ++ " law=the-first-deciding-operand-decides impl=" ++ c.obsTag ++ " " ++ c.obsPayload
    else if bucket == "SHADOWPATH" then "specfail " ++ c.kind ++ " law=a-member-of-a-shadowed-outer-value-does-not-count impl=" ++ c.obsTag ++ " " ++ c.obsPayload
    else if bucket == "OPAPI" then "specfail " ++ c.kind ++ " law=operator-agrees-with-the-value-api impl=" ++ c.obsTag ++ " " ++ c.obsPayload
    else if bad1 then "specfail " ++ c.kind ++ " law=expected-branch impl=" ++ c.obsTag ++ " " ++ c.obsPayload
    else if bad2 then "specfail " ++ c.kind ++ " law=exactly-one-branch impl=" ++ c.obsTag ++ " " ++ c.obsPayload
    else if obsMatches r c.obsTag c.obsPayload then "ok " ++ c.kind
    else "diff " ++ c.kind ++ " model=" ++ showRes r ++ " impl=" ++ c.obsTag ++ " " ++ c.obsPayload
  | _ => "bad-op c06"

end Liquid.Drv
