/-
  C11 driver ops (first token `c11`, the sub-op is the part of the kind label before the first `-`):

    c11 pair-<bucket>  <A> <B> => F <n> <api>*n R <n> <api>*n
        <api> = <name>:<eq><ne>            (APIs without PartialOrd)
              | <name>:<eq><ne>:<cmp>:<lt><le><gt><ge>
        F = what each API answered for (a, b), R = for (b, a) on the same two instances.
    c11 indep-<bucket> <k> (<A_i> <B_i>)*k => <api>*k     -- k independent constructions of one pair
    c11 tri-<bucket>   <A> <B> <C> => <api ab> <api bc> <api ac>
    c11 state-<bucket> <A> => <truthy><default><empty><blank>
    c11 tpl-<bucket>   <D> => <tag> <payload> #…            -- the fixed template `C11 tpl` on data D

  Verdict: `specfail` when a law of the property (Spec/C11.lean) is violated by the observed
  behaviour, `diff` when the model predicts something else, `ok` otherwise.
-/
import LiquidModel.Model.ArrFilters
import LiquidModel.Drv.Codec
import LiquidModel.Spec.C11
namespace Liquid.Drv.C11
open Liquid Liquid.Codec Liquid.C11

structure ApiOb where
  name : String
  ob : POb

def bit? (c : Char) : Option Bool := if c == '1' then some true else if c == '0' then some false else none

def ord? (s : String) : Option (Option Ordering) :=
  match s with
  | "lt" => some (some .lt) | "eq" => some (some .eq) | "gt" => some (some .gt) | "none" => some none
  | _ => none

def pApi : P ApiOb := do
  let t ← tok
  match t.splitOn ":" with
  | [name, en] =>
    match en.toList with
    | [e, n] => do let e ← liftO (bit? e); let n ← liftO (bit? n); pure { name := name, ob := { eq := e, ne := n } }
    | _ => failure
  | [name, en, c, bits] =>
    match en.toList, bits.toList with
    | [e, n], [l, le, g, ge] => do
      let e ← liftO (bit? e); let n ← liftO (bit? n); let c ← liftO (ord? c)
      let l ← liftO (bit? l); let le ← liftO (bit? le); let g ← liftO (bit? g); let ge ← liftO (bit? ge)
      pure { name := name, ob := { eq := e, ne := n, ord := some (c, l, le, g, ge) } }
    | _, _ => failure
  | _ => failure

def bitS (b : Bool) : String := if b then "1" else "0"

/-- what the model predicts an API answers for (a, b) -/
def modelOb (a b : V) (withOrd : Bool) : POb := modelPOb a b withOrd

/-- the same with `value_cmp` as it is at the pinned commit (objects zipped in iteration order) -/
def modelObOld (a b : V) (withOrd : Bool) : POb :=
  let e := valueEq a b
  let c := valueCmpOld a b
  { eq := e, ne := !e,
    ord := if withOrd then some (c, c == some .lt, c == some .lt || c == some .eq, c == some .gt, c == some .gt || c == some .eq) else none }

def showOb (o : POb) : String :=
  bitS o.eq ++ bitS o.ne ++
  (match o.ord with
   | none => ""
   | some (c, l, le, g, ge) => ":" ++ ordStr c ++ ":" ++ bitS l ++ bitS le ++ bitS g ++ bitS ge)

def obSame (x y : POb) : Bool := showOb x == showOb y

def expect (s : String) : P Unit := do let t ← tok; if t == s then pure () else failure

/-- first API whose observation differs from the model's prediction -/
def firstDiff (a b : V) (obs : List ApiOb) : Option String :=
  (obs.find? fun o => !obSame o.ob (modelOb a b o.ob.ord.isSome)).map fun o =>
    o.name ++ " model=" ++ showOb (modelOb a b o.ob.ord.isSome) ++ " impl=" ++ showOb o.ob ++
      (if obSame o.ob (modelObOld a b o.ob.ord.isSome) then " (impl = model of the pinned commit, iteration-order zip: D12)" else "")

def apisAgree (obs : List ApiOb) : Option String :=
  match obs with
  | [] => none
  | o :: r =>
    if r.all (fun p => p.ob.eq == o.ob.eq && p.ob.ne == o.ob.ne &&
        (match p.ob.ord, o.ob.ord with
         | some x, some y => showOb { eq := true, ne := true, ord := some x } == showOb { eq := true, ne := true, ord := some y }
         | _, _ => true)) then none
    else some "apis-agree"

def firstSomeC11 {α} (f : α → Option String) : List α → Option String
  | [] => none
  | x :: xs => match f x with | some s => some s | none => firstSomeC11 f xs

def pairOp (kind : String) : P String := do
  let a ← pV; let b ← pV
  expect "=>"; expect "F"
  let fs ← many pApi
  expect "R"
  let rs ← many pApi
  let wfv := WFV a && WFV b
  let noT := NoTruthy a && NoTruthy b
  let law : Option String :=
    (firstSomeC11 (fun o => lawsOne wfv o.ob) fs) <|> (firstSomeC11 (fun o => lawsOne wfv o.ob) rs) <|>
    (firstSomeC11 (fun (p : ApiOb × ApiOb) => lawsTwo noT wfv p.1.ob p.2.ob) (fs.zip rs)) <|>
    apisAgree fs <|> apisAgree rs <|>
    (match fs with | o :: _ => lawsValues a b o.ob.eq | [] => none) <|>
    (match rs with | o :: _ => lawsValues b a o.ob.eq | [] => none)
  match law with
  | some l => pure ("specfail " ++ kind ++ " law=" ++ l)
  | none =>
    match firstDiff a b fs <|> firstDiff b a rs with
    | some d => pure ("diff " ++ kind ++ " " ++ d)
    | none => pure ("ok " ++ kind)

def indepOp (kind : String) : P String := do
  let k ← pNat
  let pairs ← (List.range k).mapM (fun _ => do let a ← pV; let b ← pV; pure (a, b))
  expect "=>"
  let obs ← (List.range k).mapM (fun _ => pApi)
  match pairs, obs with
  | (a0, b0) :: _, o0 :: _ =>
    if !(pairs.all fun (a, b) => sameValue a0 a && sameValue b0 b) then failure
    else if !(obs.all fun o => obSame o.ob o0.ob) then
      pure ("specfail " ++ kind ++ " law=construction-independent answers=" ++ " ".intercalate (obs.map fun o => showOb o.ob))
    else
      match firstSomeC11 (fun (p : (V × V) × ApiOb) => firstDiff p.1.1 p.1.2 [p.2]) (pairs.zip obs) with
      | some d => pure ("diff " ++ kind ++ " " ++ d)
      | none => pure ("ok " ++ kind)
  | _, _ => failure

def triOp (kind : String) : P String := do
  let a ← pV; let b ← pV; let c ← pV
  expect "=>"
  let oab ← pApi; let obc ← pApi; let oac ← pApi
  let cmpOf (o : ApiOb) : Option Ordering := match o.ob.ord with | some (c, _) => c | none => none
  let wfv := WFV a && WFV b && WFV c
  let law := lawsOne wfv oab.ob <|> lawsOne wfv obc.ob <|> lawsOne wfv oac.ob <|>
    lawsTriple a b c oab.ob.eq obc.ob.eq oac.ob.eq (cmpOf oab) (cmpOf obc) (cmpOf oac)
  match law with
  | some l => pure ("specfail " ++ kind ++ " law=" ++ l)
  | none =>
    match firstDiff a b [oab] <|> firstDiff b c [obc] <|> firstDiff a c [oac] with
    | some d => pure ("diff " ++ kind ++ " " ++ d)
    | none => pure ("ok " ++ kind)

def stateOp (kind : String) : P String := do
  let a ← pV
  expect "=>"
  let t ← tok
  let m := bitS (a.queryState .truthy) ++ bitS (a.queryState .dflt) ++ bitS (a.queryState .empty) ++ bitS (a.queryState .blank)
  if t == m then pure ("ok " ++ kind) else pure ("diff " ++ kind ++ " model=" ++ m ++ " impl=" ++ t)

/-- `nil_safe_compare(a, b).unwrap_or(Equal)` of `filters/array.rs` (`cmp` = the `value_cmp` in force) -/
def nilSafeCmp (cmp : V → V → Option Ordering) (a b : V) : Ordering :=
  if a.isNil && b.isNil then .eq
  else if a.isNil then .gt
  else if b.isNil then .lt
  -- after the `fix:` commit for D8: different kinds are ordered by `kind_rank` first
  else if Arr.kindRank a < Arr.kindRank b then .lt
  else if Arr.kindRank b < Arr.kindRank a then .gt
  else (cmp a b).getD .eq

/-- expected output of the fixed C11 template (see harness/src/c11.rs `TEMPLATE`) on data `d` -/
def tplExpected (cmp : V → V → Option Ordering) (d : Obj) : Option Str := do
  let a ← objGet d "a".toList
  let b ← objGet d "b".toList
  let la0 ← match objGet d "la".toList with | some (.arr [x]) => some x | _ => none
  let (u0, u1) ← match objGet d "ab".toList with | some (.arr [x, y]) => some (x, y) | _ => none
  let (ka, kb) ← match objGet d "xs".toList with
    | some (.arr [.obj e0, .obj e1]) => do
      let x ← objGet e0 "k".toList; let y ← objGet e1 "k".toList; pure (x, y)
    | _ => none
  let e := valueEq a b
  let c := cmp a b
  let s := bitS e ++ bitS (!e) ++ bitS (c == some .lt) ++ bitS (c == some .lt || c == some .eq) ++
    bitS (c == some .gt) ++ bitS (c == some .gt || c == some .eq) ++ "|" ++
    bitS (valueEq b a) ++ "|" ++ bitS (valueEq la0 b) ++ "|" ++
    (if valueEq u0 u1 then "1" else "2") ++ "|" ++
    (if nilSafeCmp cmp kb ka == .lt then "BA" else "AB")
  pure s.toList

def tplOp (kind : String) : P String := do
  let d ← pObj
  expect "=>"
  let tag ← tok; let pay ← tok
  let rest ← get
  match rest with
  | [c] => if c.startsWith "#" then set ([] : List String) else pure ()
  | _ => pure ()
  match tplExpected valueCmp d, tplExpected valueCmpOld d with
  | some s, some sOld =>
    if tag == "PANIC" then pure ("specfail " ++ kind ++ " law=no-panic")
    else if tag == "ok" && pay == xstr s then pure ("ok " ++ kind)
    else pure ("diff " ++ kind ++ " model=ok " ++ xstr s ++ " impl=" ++ tag ++ " " ++ pay ++
      (if tag == "ok" && pay == xstr sOld then " (impl = model of the pinned commit, iteration-order zip: D12)" else ""))
  | _, _ => failure

def c11Op (args : List String) : String :=
  match args with
  | [] => "bad-op c11"
  | kind :: rest =>
    let sub := (kind.splitOn "-").headD ""
    if rest.contains "PANIC" && sub != "tpl" then "specfail " ++ kind ++ " law=no-panic" else
    -- the harness compared the same two values built in two ways (edited copy / independently)
    if (kind.splitOn "BUILD-DEPENDENT").length > 1 then "specfail " ++ kind ++ " law=outcome-depends-only-on-the-values" else
    let p : Option (P String) :=
      match sub with
      | "pair" => some (pairOp kind) | "indep" => some (indepOp kind) | "tri" => some (triOp kind)
      | "state" => some (stateOp kind) | "tpl" => some (tplOp kind)
      | _ => none
    match p with
    | none => "bad-op c11 " ++ kind
    | some p =>
      match run p rest with
      | some (s, []) => s
      | _ => "bad-op c11 " ++ kind

end Liquid.Drv.C11
