/-
  Line-protocol codec (driver side): hex strings, values, template ASTs.  I/O glue only — nothing
  here is used by a theorem.  A malformed token makes the parser return `none` (⇒ `bad-op`),
  never a default value.
-/
import LiquidModel.Model.Render
import LiquidModel.Model.CondParse
namespace Liquid.Codec
open Liquid

def hexDigit? (c : Char) : Option Nat :=
  if '0' ≤ c ∧ c ≤ '9' then some (c.toNat - 48)
  else if 'a' ≤ c ∧ c ≤ 'f' then some (c.toNat - 87)
  else if 'A' ≤ c ∧ c ≤ 'F' then some (c.toNat - 55)
  else none

def hexBytes? : List Char → ByteArray → Option ByteArray
  | [], acc => some acc
  | [_], _ => none
  | a :: b :: r, acc => do
    let x ← hexDigit? a
    let y ← hexDigit? b
    hexBytes? r (acc.push (UInt8.ofNat (x * 16 + y)))

def unhex? (cs : List Char) : Option Str := do
  let bs ← hexBytes? cs ByteArray.empty
  let s ← String.fromUTF8? bs
  pure s.toList

def hexNat? (cs : List Char) : Option Nat :=
  cs.foldlM (fun acc c => do let d ← hexDigit? c; pure (acc * 16 + d)) 0

def hexChar (n : Nat) : Char := if n < 10 then Char.ofNat (48 + n) else Char.ofNat (87 + n)

def hexOfStr (s : Str) : String :=
  let bs := (String.ofList s).toUTF8
  String.ofList (bs.toList.flatMap fun b => [hexChar (b.toNat / 16), hexChar (b.toNat % 16)])

/-- `x<hex>` -/
def xstr (s : Str) : String := "x" ++ hexOfStr s

abbrev P := StateT (List String) Option

def tok : P String := do
  match (← get) with
  | [] => failure
  | t :: r => set r; pure t

def liftO {α} (o : Option α) : P α := match o with | some a => pure a | none => failure

/-- a token with a one-char prefix -/
def pfx (c : Char) : P (List Char) := do
  let t ← tok
  match t.toList with
  | c' :: r => if c == c' then pure r else failure
  | [] => failure

def pStr : P Str := do let r ← pfx 'x'; liftO (unhex? r)
def pNat : P Nat := do let t ← tok; liftO t.toNat?
def pBool : P Bool := do let t ← tok; if t == "1" then pure true else if t == "0" then pure false else failure

def splitColon (cs : List Char) : List (List Char) :=
  (String.ofList cs).splitOn ":" |>.map String.toList

partial def pV : P V := do
  let t ← tok
  match t.toList with
  | ['N'] => pure .nil
  | ['E'] => pure (.st .empty)
  | ['K'] => pure (.st .blank)
  | ['T'] => pure (.st .truthy)
  | ['U'] => pure (.st .dflt)
  | ['B', '0'] => pure (.sc (.bool false))
  | ['B', '1'] => pure (.sc (.bool true))
  | 'I' :: r => do let i ← liftO (String.ofList r).toInt?; pure (.sc (.int i))
  | 'S' :: r => do let s ← liftO (unhex? r); pure (.sc (.str s))
  | 'F' :: r =>
    match splitColon r with
    | [b, d] => do
      let bits ← liftO (hexNat? b); let disp ← liftO (unhex? d)
      pure (.sc (.flt { bits := bits, disp := disp }))
    | _ => failure
  | 'D' :: r =>
    match splitColon r with
    | [l, o, d] => do
      let loc ← liftO (String.ofList l).toInt?; let off ← liftO (String.ofList o).toInt?
      let disp ← liftO (unhex? d)
      pure (.sc (.dt { loc := loc, off := off, disp := disp }))
    | _ => failure
  | 'Y' :: r =>
    match splitColon r with
    | [l, d] => do
      let days ← liftO (String.ofList l).toInt?; let disp ← liftO (unhex? d)
      pure (.sc (.date { days := days, disp := disp }))
    | _ => failure
  | 'A' :: r => do
    let n ← liftO (String.ofList r).toNat?
    let xs ← (List.range n).mapM (fun _ => pV)
    pure (.arr xs)
  | 'O' :: r => do
    let n ← liftO (String.ofList r).toNat?
    let kvs ← (List.range n).mapM (fun _ => do
      let k ← pfx 'k'; let k ← liftO (unhex? k); let v ← pV; pure (k, v))
    pure (.obj kvs)
  | _ => failure

def pObj : P Obj := do
  match (← pV) with
  | .obj kvs => pure kvs
  | _ => failure

partial def encV : V → List String
  | .nil => ["N"]
  | .st .empty => ["E"] | .st .blank => ["K"] | .st .truthy => ["T"] | .st .dflt => ["U"]
  | .sc (.bool b) => [if b then "B1" else "B0"]
  | .sc (.int i) => ["I" ++ toString i]
  | .sc (.str s) => ["S" ++ hexOfStr s]
  | .sc (.flt f) => ["F" ++ String.ofList (Nat.toDigits 16 f.bits) ++ ":" ++ hexOfStr f.disp]
  | .sc (.dt d) => ["D" ++ toString d.loc ++ ":" ++ toString d.off ++ ":" ++ hexOfStr d.disp]
  | .sc (.date d) => ["Y" ++ toString d.days ++ ":" ++ hexOfStr d.disp]
  | .arr xs => ("A" ++ toString xs.length) :: xs.flatMap encV
  | .obj kvs => ("O" ++ toString kvs.length) :: kvs.flatMap fun (k, v) => ("k" ++ hexOfStr k) :: encV v

def showV (v : V) : String := " ".intercalate (encV v)

def many {α} (p : P α) : P (List α) := do
  let n ← pNat
  (List.range n).mapM (fun _ => p)

def opt {α} (p : P α) : P (Option α) := do
  let t ← tok
  if t == "-" then pure none else if t == "+" then some <$> p else failure

partial def pExpr : P Expr := do
  let t ← tok
  match t.toList with
  | ['l'] => Expr.lit <$> pV
  | 'v' :: r => do
    let root ← liftO (unhex? r)
    let idx ← many pExpr
    pure (.var root idx)
  | _ => failure

def pFCall : P FCall := do
  let name ← pStr
  let args ← many pExpr
  pure { name := name, args := args }

def pOp : P CmpOp := do
  match (← tok) with
  | "eq" => pure .eq | "ne" => pure .ne | "lt" => pure .lt | "gt" => pure .gt
  | "le" => pure .le | "ge" => pure .ge | "ct" => pure .contains
  | _ => failure

partial def pCond : P Cond := do
  match (← tok) with
  | "Cb" => do let l ← pExpr; let o ← pOp; let r ← pExpr; pure (.bin l o r)
  | "Ce" => Cond.exist <$> pExpr
  | "Ca" => do let a ← pCond; let b ← pCond; pure (.and a b)
  | "Co" => do let a ← pCond; let b ← pCond; pure (.or a b)
  | "Cf" => do
    -- flat token list as written in the source: grouped by the model of `parse_condition`
    let items ← many (do
      match (← tok) with
      | "&" => pure [CTok.and_]
      | "|" => pure [CTok.or_]
      | "a" => do
        match (← pCond) with
        | .bin l o r => pure [CTok.val l, CTok.cmp o, CTok.val r]
        | .exist e => pure [CTok.val e]
        | _ => failure
      | _ => failure)
    liftO (parseCondition items.flatten)
  | _ => failure

def pRange : P RangeE := do
  match (← tok) with
  | "Ra" => RangeE.arr <$> pExpr
  | "Rc" => do let a ← pExpr; let b ← pExpr; pure (.counted a b)
  | _ => failure

def pKV : P (Str × Expr) := do let k ← pStr; let e ← pExpr; pure (k, e)

partial def pNode : P Node := do
  match (← tok) with
  | "tx" => Node.text <$> pStr
  | "rw" => Node.raw <$> pStr
  | "cm" => pure .comment
  | "ou" => do let e ← pExpr; let fs ← many pFCall; pure (.output e fs)
  | "as" => do let x ← pStr; let e ← pExpr; let fs ← many pFCall; pure (.assign x e fs)
  | "cp" => do let x ← pStr; let b ← many pNode; pure (.capture x b)
  | "in" => Node.incr <$> pStr
  | "de" => Node.decr <$> pStr
  | "bk" => pure .brk
  | "ct" => pure .cont
  | "if" => do
    let c ← pCond; let m ← pBool; let t ← many pNode; let e ← opt (many pNode)
    pure (.cond c m t e)
  | "cs" => do
    let tg ← pExpr
    let arms ← many (do let es ← many pExpr; let b ← many pNode; pure (es, b))
    let e ← opt (many pNode)
    pure (.case_ tg arms e)
  | "fo" => do
    let x ← pStr; let r ← pRange; let l ← opt pExpr; let o ← opt pExpr; let rev ← pBool
    let b ← many pNode; let e ← opt (many pNode)
    pure (.for_ x r l o rev b e)
  | "tr" => do
    let x ← pStr; let r ← pRange; let c ← opt pExpr; let l ← opt pExpr; let o ← opt pExpr
    let b ← many pNode
    pure (.tablerow x r c l o b)
  | "cy" => do let n ← pStr; let vs ← many pExpr; pure (.cycle n vs)
  | "ch" => Node.ifchanged <$> many pNode
  | "ic" => do let n ← pExpr; let a ← many pKV; pure (.include_ n a)
  | "rn" => do
    let n ← pExpr
    let form ← (do
      match (← tok) with
      | "p" => pure RForm.plain
      | "w" => do let e ← pExpr; let a ← pStr; pure (RForm.with_ e a)
      | "f" => do let r ← pRange; let a ← pStr; pure (RForm.for_ r a)
      | _ => failure)
    let a ← many pKV
    pure (.render_ n form a)
  | _ => failure

def pTmpl : P Tmpl := many pNode

/-- partial store: `<n> (x<name> (- | + <Tmpl>))*` -/
def pPartials : P (List (Str × Option Tmpl)) :=
  many (do let n ← pStr; let t ← opt pTmpl; pure (n, t))

def run {α} (p : P α) (toks : List String) : Option (α × List String) := p.run toks

/-- status token of a `Res` -/
def resTag {α} : Res α → String
  | .ok _ => "ok" | .err => "err" | .io => "io" | .panic _ => "PANIC" | .fuel => "FUEL"

end Liquid.Codec

namespace Liquid.Codec
open Liquid

def sortKvs (kvs : List (Str × V)) : List (Str × V) :=
  kvs.mergeSort (fun a b => strCmp a.1 b.1 != .gt)

/-- like `encV`, objects sorted by key (canonical form for observations) -/
partial def encVSorted : V → List String
  | .arr xs => ("A" ++ toString xs.length) :: xs.flatMap encVSorted
  | .obj kvs => ("O" ++ toString kvs.length) :: (sortKvs kvs).flatMap fun (k, v) => ("k" ++ hexOfStr k) :: encVSorted v
  | v => encV v

end Liquid.Codec
