/-
  `sink` op (C10): the fault-free observation plus, for every failing write index, what the sink
  had accepted.  Spec on the implementation: error, clean prefix at a raw-chunk boundary (or inside
  the failing chunk for short writes), no write after the failure.  Model: fault-free result and
  fragment structure (every `write!` site is a run of consecutive raw chunks).
-/
import LiquidModel.Drv.Render
namespace Liquid.Drv
open Liquid Liquid.Codec

structure Fault where
  short : Bool
  k : Nat
  tag : String
  accepted : Nat
  isPrefix : Bool
  callsAfter : Nat

def pFault : P Fault := do
  let s ← tok; let k ← pNat; let tag ← tok; let a ← pNat; let p ← pBool; let c ← pNat
  pure { short := s == "s", k := k, tag := tag, accepted := a, isPrefix := p, callsAfter := c }

def cumSums (xs : List Nat) : List Nat := xs.foldl (fun acc x => acc ++ [acc.getLastD 0 + x]) [0]

def sinkOp (filters : Str → Option (V → List V → Res V)) (args : List String) : String :=
  let p : P (RenderCase × List Nat × List Fault) := do
    let kind ← tok
    let t ← pTmpl; let d ← pObj; let ps ← pPartials
    let arrow ← tok
    if arrow != "=>" then failure
    let tag ← tok; let pay ← tok
    let c ← tok
    if c != "chunks" then failure
    let chunks ← many pNat
    let f ← tok
    if f != "faults" then failure
    let faults ← many pFault
    let rest ← get
    match rest with
    | [cm] => if cm.startsWith "#" then set ([] : List String) else pure ()
    | _ => pure ()
    pure ({ kind := kind, tmpl := t, data := d, partials := ps, obsTag := tag, obsPayload := pay }, chunks, faults)
  match run p args with
  | some ((c, chunks, faults), []) =>
    let bounds := cumSums chunks           -- raw chunk boundaries (byte offsets)
    -- spec on the implementation's fault runs
    let bad := faults.find? fun f =>
      f.tag != "err" || !f.isPrefix || f.callsAfter != 0 ||
      (if f.short then
         -- accepted ends inside (or at the start of) chunk k
         !(bounds.getD (f.k - 1) 0 ≤ f.accepted && f.accepted ≤ bounds.getD f.k 0)
       else f.accepted != bounds.getD (f.k - 1) 0)
    match bad with
    | some f => "specfail " ++ c.kind ++ " law=" ++
        (if f.tag != "err" then "failing-sink-is-an-error(" ++ f.tag ++ ")"
         else if !f.isPrefix then "accepted-bytes-are-a-prefix"
         else if f.callsAfter != 0 then "no-write-after-failure"
         else "accepted-ends-at-the-failing-write") ++ " k=" ++ toString f.k
    | none =>
      if c.obsTag == "PANIC" || c.obsTag == "BADUTF8" then "specfail " ++ c.kind ++ " law=fault-free-run " ++ c.obsTag else
      let env : Env := Env.ofList c.partials filters
      let (r, _, w) := renderT defaultFuel env c.tmpl (Rt.build c.data) {}
      let rs : Res Str := match r with
        | .ok () => .ok w.text | .err => .err | .io => .io | .panic s => .panic s | .fuel => .fuel
      if !obsMatches rs c.obsTag c.obsPayload then
        "diff " ++ c.kind ++ " model=" ++ showRes rs ++ " impl=" ++ c.obsTag ++ " " ++ c.obsPayload
      else
        -- every site fragment boundary of the model is a raw chunk boundary of the implementation
        let siteBounds := cumSums (w.out.map fun s => (String.ofList s).utf8ByteSize)
        if siteBounds.all (fun b => bounds.contains b) && siteBounds.getLastD 0 == bounds.getLastD 0 then "ok " ++ c.kind
        else "diff " ++ c.kind ++ " model-sites=" ++ toString siteBounds ++ " impl-chunks=" ++ toString bounds
  | _ => "bad-op sink"

end Liquid.Drv
