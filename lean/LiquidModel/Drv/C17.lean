/-
  C17 driver ops (see `harness/src/c17.rs` for the line formats):
  `c17` (strftime through the `date` filter + calendar comparison with the `time` crate),
  `c17p` (parse), `c17r` (print/parse round-trip), `c17c` (eq / cmp), `c17z` (`date_in_tz`).
-/
import LiquidModel.Drv.FilterOp
import LiquidModel.Model.DateFmt
import LiquidModel.Spec.C17
namespace Liquid.Drv.C17
open Liquid Liquid.Codec Liquid.Cal Liquid.Strf Liquid.DateFmt

def pDT : P DT := do
  match (← pV) with
  | .sc (.dt d) => pure d
  | _ => failure

/-- `cal:<unix ns>:<y>:<m>:<d>:<ord>:<wd>:<U>:<W>:<G>:<V>:<H>:<M>:<S>:<ns>` -/
def pCal : P (List Int) := do
  let t ← tok
  match t.splitOn ":" with
  | "cal" :: r => liftO (r.mapM String.toInt?)
  | _ => failure

/-- the same fields from the independent calendar -/
def modelCal (d : DT) : List Int :=
  let n := localDay d
  [d.instant, yearOf n, monthOf n, dayOf n, ordinalOf n, wdFromMonday n, sundayWeek n, mondayWeek n,
   isoYear n, isoWeek n, hour d, minute d, second d, nanos d]

def showInts (xs : List Int) : String := ":".intercalate (xs.map toString)

def arrow : P Unit := do
  let a ← tok
  if a != "=>" then failure

def c17Op (args : List String) : String :=
  let p : P (String × DT × List Int × Str × FObs) := do
    let kind ← tok; let d ← pDT; let cal ← pCal; let fmt ← pStr; arrow; let obs ← pFObs
    pure (kind, d, cal, fmt, obs)
  match run p args with
  | some ((kind, d, cal, fmt, obs), []) =>
    let mc := modelCal d
    if mc != cal then "specfail " ++ kind ++ " law=calendar independent=" ++ showInts mc ++ " crate=" ++ showInts cal
    else
      match noPanicSpec { kind := kind, name := [], input := .nil, args := [], obs := obs } with
      | some law => "specfail " ++ kind ++ " law=" ++ law ++ " impl=" ++ showFObs obs
      | none =>
        let mal := C17S.isMalformed fmt
        let isErr := match obs with | .err _ => true | _ => false
        if mal != isErr && !fmt.isEmpty then
          "specfail " ++ kind ++ " law=malformed-iff-error malformed=" ++ toString mal ++ " impl=" ++ showFObs obs
        else
          let exp := if kind.startsWith "dir:" || kind.startsWith "corpus" then C17S.expectSingle d fmt else none
          let specBad : Bool := match exp, obs with
            | some e, .ok (.sc (.str s)) => e != s
            | some _, _ => true
            | none, _ => false
          -- an offset directive shows `-` exactly for offsets west of UTC
          let isOffKind := kind == "dir:z" || kind == "dir:Z" || kind == "dir:colon-z" || kind == "corpus-d17"
          let signBad : Bool := match obs with
            | .ok (.sc (.str s)) => isOffKind && (s.contains '-' != decide (d.off < 0) || s.contains '+' != decide (0 ≤ d.off))
            | _ => false
          -- … and fills exactly the requested width (5 / 6 / 9 columns by default), whatever the padding style
          let widthBad : Bool := match obs, fmt with
            | .ok (.sc (.str s)), '%' :: r =>
              (match C17S.splitSpec r with
               | some sp =>
                 let dflt : Option Nat :=
                   if sp.dir == 'z' && sp.rest.isEmpty then some 5
                   else if sp.dir == ':' && sp.rest == ['z'] then some 6
                   else if sp.dir == ':' && sp.rest == [':', 'z'] then some 9 else none
                 (match dflt with
                  | some k => isOffKind && s.length != max (sp.width.getD 0) k
                  | none => false)
               | none => false)
            | _, _ => false
          if signBad then
            "specfail " ++ kind ++ " law=offset-sign impl=" ++ showFObs obs
          else if widthBad then
            "specfail " ++ kind ++ " law=offset-fills-its-width impl=" ++ showFObs obs
          else if specBad then
            "specfail " ++ kind ++ " law=directive expected=" ++ xstr ((exp.getD [])) ++ " impl=" ++ showFObs obs
          else
            let r := dateFilter true (.sc (.dt d)) [.sc (.str fmt)]
            if fobsMatches r obs then "ok " ++ kind
            else "diff " ++ kind ++ " model=" ++ showResV r ++ " impl=" ++ showFObs obs
  | _ => "bad-op c17"

/-- `none -` | `some <D>` | `PANIC -` -/
inductive PObs where | none | some (d : DT) | panic

def pPObs : P PObs := do
  match (← tok) with
  | "none" => do let _ ← tok; pure .none
  | "some" => PObs.some <$> pDT
  | "PANIC" => do let _ ← tok; pure .panic
  | _ => failure

def showPObs : PObs → String
  | .none => "none"
  | .some d => "some " ++ toString d.loc ++ ":" ++ toString d.off ++ ":" ++ String.ofList d.disp
  | .panic => "PANIC"

def showParseRes : ParseRes → String
  | .none => "none"
  | .now => "now"
  | .some d => "some " ++ toString d.loc ++ ":" ++ toString d.off ++ ":" ++ String.ofList (displayDT d)

def parseMatches (r : ParseRes) (o : PObs) : Bool :=
  match r, o with
  | .none, .none => true
  | .some a, .some b => a.loc == b.loc && a.off == b.off && displayDT a == b.disp
  | _, _ => false

def c17pOp (args : List String) : String :=
  let p : P (String × Str × PObs) := do
    let kind ← tok; let s ← pStr; arrow; let obs ← pPObs
    pure (kind, s, obs)
  match run p args with
  | some ((kind, s, obs), []) =>
    match obs with
    | .panic => "specfail " ++ kind ++ " law=no-panic"
    | _ =>
      let r := parseDT s
      if parseMatches r obs then "ok " ++ kind
      else "diff " ++ kind ++ " model=" ++ showParseRes r ++ " impl=" ++ showPObs obs
  | _ => "bad-op c17p"

/-- the round-trip law applies to offsets that the default format can express: whole minutes,
below 20 h (the offset regex `[+-][01][0-9]{3}$`) -/
def rtApplies (d : DT) : Bool := d.off % 60 == 0 && d.off.natAbs < 72000

def c17rOp (args : List String) : String :=
  let p : P (String × DT × PObs) := do
    let kind ← tok; let d ← pDT; arrow; let obs ← pPObs
    pure (kind, d, obs)
  match run p args with
  | some ((kind, d, obs), []) =>
    let specOk : Bool := match obs with
      | .some e => !rtApplies d || (e.loc == d.loc && e.off == d.off)
      | .none => !rtApplies d
      | .panic => false
    if !specOk then "specfail " ++ kind ++ " law=print-parse-roundtrip impl=" ++ showPObs obs
    else if displayDT d != d.disp then
      "diff " ++ kind ++ " model-display=" ++ String.ofList (displayDT d) ++ " impl=" ++ String.ofList d.disp
    else
      let r := parseDT d.disp
      if parseMatches r obs then "ok " ++ kind
      else "diff " ++ kind ++ " model=" ++ showParseRes r ++ " impl=" ++ showPObs obs
  | _ => "bad-op c17r"

def ordName : Option Ordering → String
  | some .lt => "lt" | some .eq => "eq" | some .gt => "gt" | none => "none"

def c17cOp (args : List String) : String :=
  let p : P (String × DT × DT × Int × Int × String × String) := do
    let kind ← tok; let a ← pDT; let b ← pDT
    let ia ← tok; let ib ← tok; arrow; let eqs ← tok; let cmp ← tok
    let ia ← liftO ia.toInt?; let ib ← liftO ib.toInt?
    pure (kind, a, b, ia, ib, eqs, cmp)
  match run p args with
  | some ((kind, a, b, ia, ib, eqs, cmp), []) =>
    -- spec: chronological, from the generator's own instants
    let expEq := if ia == ib then "11" else "00"
    let expCmp := ordName (some (compare ia ib))
    if eqs != expEq || cmp != expCmp then
      "specfail " ++ kind ++ " law=chronological expected=" ++ expEq ++ " " ++ expCmp ++ " impl=" ++ eqs ++ " " ++ cmp
    else
      let me := scalarEq (.dt a) (.dt b)
      let ve := valueEq (.sc (.dt a)) (.sc (.dt b))
      let mc := scalarCmp (.dt a) (.dt b)
      let ms := (if me then "1" else "0") ++ (if ve then "1" else "0")
      if ms == eqs && ordName mc == cmp && a.instant == ia && b.instant == ib then "ok " ++ kind
      else "diff " ++ kind ++ " model=" ++ ms ++ " " ++ ordName mc ++ " impl=" ++ eqs ++ " " ++ cmp
  | _ => "bad-op c17c"

def c17zOp (args : List String) : String :=
  let p : P (String × DT × Str × V × FObs) := do
    let kind ← tok; let d ← pDT; let fmt ← pStr; let tz ← pV; arrow; let obs ← pFObs
    pure (kind, d, fmt, tz, obs)
  match run p args with
  | some ((kind, d, fmt, tz, obs), []) =>
    match noPanicSpec { kind := kind, name := [], input := .nil, args := [], obs := obs } with
    | some law => "specfail " ++ kind ++ " law=" ++ law ++ " impl=" ++ showFObs obs
    | none =>
      let r := dateInTz true (.sc (.dt d)) [.sc (.str fmt), tz]
      if fobsMatches r obs then "ok " ++ kind
      else "diff " ++ kind ++ " model=" ++ showResV r ++ " impl=" ++ showFObs obs
  | _ => "bad-op c17z"

/-- `c17d <kind> x<text> => none - | some Y<days>:<hex display>` -/
def c17dOp (args : List String) : String :=
  let p : P (String × Str × Option (Option Dt)) := do
    let kind ← tok; let s ← pStr; arrow
    let obs ← (do
      match (← tok) with
      | "none" => do let _ ← tok; pure (some none)
      | "some" => do
        match (← pV) with
        | .sc (.date d) => pure (some (some d))
        | _ => failure
      | "PANIC" => do let _ ← tok; pure none
      | _ => failure)
    pure (kind, s, obs)
  match run p args with
  | some ((kind, s, obs), []) =>
    match obs with
    | none => "specfail " ++ kind ++ " law=no-panic"
    | some o =>
      match parseDate s with
      | none => "ok " ++ kind ++ " (today: not modelled)"
      | some r =>
        let same : Bool := match r, o with
          | none, none => true
          | some n, some d => n == d.days && displayDate n == d.disp
          | _, _ => false
        if same then "ok " ++ kind
        else "diff " ++ kind ++ " model=" ++ (match r with | some n => toString n ++ ":" ++ String.ofList (displayDate n) | none => "none") ++
          " impl=" ++ (match o with | some d => toString d.days ++ ":" ++ String.ofList d.disp | none => "none")
  | _ => "bad-op c17d"

end Liquid.Drv.C17
