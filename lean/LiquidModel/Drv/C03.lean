/-
  `c03` op: `c03 <kind> <pieces…> <obsTag> <obsPayload> #x<hex source>`.
  * decodes the structure the generator built and checks that it prints to exactly the transmitted source;
  * model: `lexLax` (grammar's inner rules) → `parseElems` → the render interpreter, on the source text;
  * spec : `C03.expected` computed from the structure (independent of the lexer) whenever the structure is
    inside the generator contract `C03.wellFormed`;
  * verdict: `specfail` if the implementation's output differs from the spec's, `diff` if it differs from
    the model's, else `ok` (`ok … unjudged` = outside the contract *and* outside the modelled subset).
  Also asserts on every case the lexer facts the theorems of Props/C03 prove (tiling, non-empty spans):
  a failure there is reported as `diff … lexer-invariant`.
-/
import LiquidModel.Drv.Render
import LiquidModel.Model.MiniParse
import LiquidModel.Spec.C03
namespace Liquid.Drv.C03
open Liquid Liquid.Codec

def pDelim : P C03.Delim := do
  let t ← tok
  match t.toList with
  | [a, b, c, d] =>
    let bit (x : Char) : Option Bool := if x == '0' then some false else if x == '1' then some true else none
    let dig (x : Char) : Option Nat := if '0' ≤ x ∧ x ≤ '9' then some (x.toNat - 48) else none
    let tl ← liftO (bit a); let tr ← liftO (bit b); let il ← liftO (dig c); let ir ← liftO (dig d)
    pure { tl := tl, tr := tr, il := il, ir := ir }
  | _ => failure

partial def pPiece : P C03.Piece := do
  match (← tok) with
  | "L" => C03.Piece.lit <$> pStr
  | "K" => C03.Piece.look <$> pStr
  | "U" => C03.Piece.opener <$> pStr
  | "B" => C03.Piece.bad <$> pStr
  | "O" => do let d ← pDelim; let s ← pStr; let v ← pStr; pure (.out d s v)
  | "V" => do let d ← pDelim; let n ← pStr; pure (.outVar d n)
  | "A" => do let d ← pDelim; let n ← pStr; let s ← pStr; let v ← pStr; pure (.assign d n s v)
  | "N" => do let d ← pDelim; let n ← pStr; pure (.incr d n)
  | "I" => do
    let o ← pDelim; let cs ← pStr; let c ← pBool; let body ← many pPiece
    let he ← pBool; let e ← pDelim; let eb ← many pPiece; let cl ← pDelim
    pure (.ifb o cs c body he e eb cl)
  | "R" => do let o ← pDelim; let b ← many pPiece; let c ← pDelim; pure (.raw o b c)
  | "C" => do let o ← pDelim; let b ← many pPiece; let c ← pDelim; pure (.comment o b c)
  | _ => failure

structure C03Case where
  kind : String
  pieces : List C03.Piece
  obsTag : String
  obsPayload : String
  src : Str

def pC03Case : P C03Case := do
  let kind ← tok
  let ps ← many pPiece
  let tag ← tok
  let pay ← tok
  let h ← tok
  match h.toList with
  | '#' :: 'x' :: r =>
    let s ← liftO (unhex? r)
    pure { kind := kind, pieces := ps, obsTag := tag, obsPayload := pay, src := s }
  | _ => failure

/-- caller data of every C03 case (same as `harness/src/c03.rs` `data()`) -/
def c03Globals : Obj :=
  [("a".toList, .sc (.str "A0".toList)), ("b".toList, .sc (.str "B0".toList)),
   ("c".toList, .sc (.str "C0".toList)), ("g".toList, .sc (.str "G".toList))]

def c03SpecEnv : C03.SEnv :=
  { vars := [("a".toList, "A0".toList), ("b".toList, "B0".toList), ("c".toList, "C0".toList), ("g".toList, "G".toList)] }

inductive MOut where
  | ok (s : Str) | perr | rerr | panic (site : String) | unsupported | other (s : String)

def c03Model (src : Str) : MOut :=
  match Mini.parseText src with
  | .ok t =>
    (match renderTop defaultFuel {} t c03Globals with
     | .ok s => .ok s
     | .err => .rerr
     | .panic s => .panic s
     | .io => .other "io"
     | .fuel => .other "fuel")
  | .err => .perr
  | .panic s => .panic s
  | .unsupported => .unsupported

def MOut.show : MOut → String
  | .ok s => "ok " ++ xstr s
  | .perr => "perr msg"
  | .rerr => "err msg"
  | .panic s => "PANIC " ++ s.replace " " "_"
  | .unsupported => "unsupported -"
  | .other s => s ++ " -"

def MOut.matches (m : MOut) (tag pay : String) : Bool :=
  match m with
  | .ok s => tag == "ok" && pay == xstr s
  | .perr => tag == "perr" && pay == "msg"
  | .rerr => tag == "err" && pay == "msg"
  | .panic _ => tag == "PANIC"
  | _ => false

/-- the facts `C03_tiling` / `C01_lex_total` prove, re-checked on the concrete input -/
def lexInvariant (src : Str) : Bool :=
  let es := Lex.lexLax Lex.stdInner src
  (es.flatMap Lex.Elem.text == src) && es.all (fun e => !e.text.isEmpty)

def c03Op (args : List String) : String :=
  match run pC03Case args with
  | some (c, []) =>
    if C03.sourceL c.pieces != c.src then "bad-op c03 structure-does-not-print-to-source" else
    let wf := C03.wellFormed c.pieces
    let exp := C03.emitSegs (C03.segsL c03SpecEnv c.pieces).1 false []
    let m := c03Model c.src
    if wf && !(c.obsTag == "ok" && c.obsPayload == xstr exp) then
      "specfail " ++ c.kind ++ " spec=ok " ++ xstr exp ++ " impl=" ++ c.obsTag ++ " " ++ c.obsPayload ++
        " model=" ++ m.show
    else if !lexInvariant c.src then "diff " ++ c.kind ++ " lexer-invariant"
    else
      match m with
      | .unsupported => "ok " ++ c.kind ++ (if wf then " spec-only" else " unjudged")
      | _ =>
        if m.matches c.obsTag c.obsPayload then "ok " ++ c.kind ++ (if wf then " spec+model" else " model-only")
        else "diff " ++ c.kind ++ " model=" ++ m.show ++ " impl=" ++ c.obsTag ++ " " ++ c.obsPayload
  | _ => "bad-op c03"

end Liquid.Drv.C03
