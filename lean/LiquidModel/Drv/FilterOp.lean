/-
  Generic `filter`-style op: `<kind> x<name> <input V> <nargs> <arg V>* => <tag> <payload…>`.
-/
import LiquidModel.Drv.Codec
namespace Liquid.Drv
open Liquid Liquid.Codec

inductive FObs where
  | ok (v : V)
  | argerr (msg : Bool)
  | err (msg : Bool)
  | panic
  deriving Inhabited

structure FilterCase where
  kind : String
  name : Str
  input : V
  args : List V
  obs : FObs

def pFObs : P FObs := do
  match (← tok) with
  | "ok" => FObs.ok <$> pV
  | "argerr" => do let m ← tok; pure (.argerr (m == "msg"))
  | "err" => do let m ← tok; pure (.err (m == "msg"))
  | "PANIC" => do let _ ← tok; pure .panic
  | _ => failure

def pFilterCase : P FilterCase := do
  let kind ← tok
  let name ← pStr
  let input ← pV
  let args ← many pV
  let arrow ← tok
  if arrow != "=>" then failure
  let obs ← pFObs
  pure { kind := kind, name := name, input := input, args := args, obs := obs }

def showFObs : FObs → String
  | .ok v => "ok " ++ showV v
  | .argerr _ => "argerr"
  | .err _ => "err"
  | .panic => "PANIC"

def showResV : Res V → String
  | .ok v => "ok " ++ showV v
  | .err => "err"
  | .io => "io"
  | .panic s => "PANIC " ++ s.replace " " "_"
  | .fuel => "FUEL"

/-- model outcome vs. observation (an error must carry a message) -/
def fobsMatches (r : Res V) (o : FObs) : Bool :=
  match r, o with
  | .ok v, .ok w => v.same w
  | .err, .err true => true
  | .err, .argerr true => true
  | .panic _, .panic => true
  | _, _ => false

/-- Build a handler from a model (`none` = filter not modelled ⇒ oracle only) and a spec predicate
returning the name of a violated law (`none` = fine). -/
def filterOp (model : Str → Option (V → List V → Res V))
    (spec : FilterCase → Option String) (args : List String) : String :=
  match run pFilterCase args with
  | some (c, []) =>
    match spec c with
    | some law => "specfail " ++ c.kind ++ " law=" ++ law ++ " impl=" ++ showFObs c.obs
    | none =>
      match model c.name with
      | none => "ok " ++ c.kind ++ " (unmodelled)"
      | some f =>
        let r := f c.input c.args
        if fobsMatches r c.obs then "ok " ++ c.kind
        else "diff " ++ c.kind ++ " model=" ++ showResV r ++ " impl=" ++ showFObs c.obs
  | _ => "bad-op filter"

/-- Spec shared by every filter op: never a panic, errors carry a message. -/
def noPanicSpec (c : FilterCase) : Option String :=
  match c.obs with
  | .panic => some "no-panic"
  | .err false => some "error-has-message"
  | .argerr false => some "error-has-message"
  | _ => none

end Liquid.Drv
