import LiquidModel.Drv.Render
import LiquidModel.Spec.C05
namespace Liquid.Drv
open Liquid Liquid.Codec

def parseOptNat (s : String) : Option (Option Nat) :=
  if s == "_" then some none else s.toNat?.map some

/-- kind label `name:k1:k2…` carries the structured parameters of a C05 case. -/
def c05Spec (kind : String) (data : Obj) : Option Str :=
  let arr (k : String) : List V := match objGet data k.toList with | some (.arr xs) => xs | _ => []
  match kind.splitOn ":" with
  | ["for-array", off, lim, rev] => do
    let o ← parseOptNat off; let l ← parseOptNat lim
    pure (C05.specFor (arr "a") o l (rev == "1"))
  | ["for-range", off, lim, rev, lo, hi] => do
    let o ← parseOptNat off; let l ← parseOptNat lim
    let lo ← lo.toInt?; let hi ← hi.toInt?
    pure (C05.specFor (rangeInts lo hi) o l (rev == "1"))
  | ["tablerow", off, lim, cols] => do
    let o ← parseOptNat off; let l ← parseOptNat lim; let c ← parseOptNat cols
    pure (C05.specTable (arr "a") o l c)
  | ["tablerow-range", off, lim, cols, lo, hi] => do
    let o ← parseOptNat off; let l ← parseOptNat lim; let c ← parseOptNat cols
    let lo ← lo.toInt?; let hi ← hi.toInt?
    pure (C05.specTable (rangeInts lo hi) o l c)
  | ["expect", want] => unhex? want.toList             -- expected output computed by the harness's own reference loop
  | ["else-interrupt", want] => unhex? want.toList     -- expected output computed by the harness's own reference loop
  | ["nested", ao, ai, ko, ki] => do
    let ao ← ao.toNat?; let ai ← ai.toNat?; let ko ← ko.toNat?; let ki ← ki.toNat?
    pure (C05.specNested (arr "a") (arr "b") ao ai ko ki)
  | _ => none

/-- `c05` op = `render` + the independent spec verdict on the implementation's observation. -/
def c05Op (args : List String) : String :=
  match run pRenderCase args with
  | some (c, []) =>
    -- ranges too long to materialise (also for the model): judged by the no-panic oracle only
    if c.kind == "range-huge" then
      (if c.obsTag == "PANIC" then "specfail range-huge law=no-panic impl=PANIC" else "ok range-huge")
    else
    let env : Env := Env.ofList c.partials baseFilters
    let r := renderTop defaultFuel env c.tmpl c.data
    let specVerdict : Option Bool := (c05Spec c.kind c.data).map fun s => (c.obsTag == "ok" && c.obsPayload == xstr s)
    match specVerdict with
    | some false => "specfail " ++ c.kind ++ " spec=" ++ (match c05Spec c.kind c.data with | some s => xstr s | none => "-") ++
        " impl=" ++ c.obsTag ++ " " ++ c.obsPayload
    | _ =>
      if obsMatches r c.obsTag c.obsPayload then "ok " ++ c.kind
      else "diff " ++ c.kind ++ " model=" ++ showRes r ++ " impl=" ++ c.obsTag ++ " " ++ c.obsPayload
  | _ => "bad-op c05"

end Liquid.Drv
