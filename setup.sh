#!/bin/sh
# Build the framework from files on disk only (offline): Lean model + proofs + driver, Rust harness.
set -e
cd "$(dirname "$0")"
mkdir -p .build replays evidence
python3 tools/extract.py
(cd lean && lake build LiquidModel driver)
(cd harness && CARGO_NET_OFFLINE=true CARGO_TARGET_DIR="$PWD/../.build/target" cargo build --release --offline)
echo setup-ok
