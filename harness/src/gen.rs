//! Random well-formed template generator over the AST of `ast.rs`, shared by the interpreter-level
//! properties (C02, C04, C08, C09, C10, C19, C20).  A small, deliberately reused name alphabet makes
//! the same name a caller datum, an assigned variable, a loop variable, a counter and a partial
//! argument at once.
use crate::ast::*;
use crate::rng::Rng;
use liquid_core::model::{Object, Value};

/// the shared name alphabet; `size` is also the synthetic member every object and array answers, so a
/// variable of that name probes every lookup path that confuses "bound in this scope" with "resolves on this value"
pub const NAMES: [&str; 5] = ["a", "b", "c", "x", "size"];

pub struct Gen {
    pub rng: Rng,
    /// names of partials that may be included/rendered (defined elsewhere)
    pub partials: Vec<String>,
    /// allow include / render nodes
    pub allow_partials: bool,
    /// allow nodes that may legitimately fail at render time (missing variables, bad indexes)
    pub allow_errors: bool,
    pub in_loop: usize,
    /// partial names may come from the `pname` variable (only safe where recursion is impossible)
    pub dynamic_names: bool,
    /// turn increment/decrement into assignments (metamorphic C08 streams: counters are shared on purpose)
    pub no_counters: bool,
    /// only constructs that cannot fail: variables are read under `{% if v %}`, ranges are literal
    pub guarded: bool,
}

impl Gen {
    pub fn new(seed: u64) -> Self {
        Gen { rng: Rng::new(seed), partials: vec![], allow_partials: false, allow_errors: true, in_loop: 0, dynamic_names: false, no_counters: false, guarded: false }
    }

    pub fn name(&mut self) -> String {
        (*self.rng.pick(&NAMES)).to_string()
    }

    pub fn scalar(&mut self) -> Value {
        // now and then a text from the edges: a byte-order mark, a backslash, the replacement character,
        // CJK, and a 170-byte string whose 128th byte lies inside a multi-byte character.  (No integers
        // at the 32/53/64-bit boundaries here: arithmetic filters continue in floating point on overflow
        // and printing a computed float is outside the interpreter model -- C15 covers those with its
        // own float oracle.)
        if self.rng.chance(1, 12) {
            return match self.rng.below(5) {
                0 => Value::scalar("\u{feff}b"),
                1 => Value::scalar("a\\b"),
                2 => Value::scalar("\u{fffd}"),
                3 => Value::scalar("\u{65e5}\u{672c}"),
                _ => Value::scalar(format!("{}\u{e9}\u{65e5}\u{672c}{}", "a".repeat(127), "\u{e9}".repeat(18))),
            };
        }
        match self.rng.below(8) {
            0 => Value::scalar(self.rng.range(-3, 12)),
            1 => Value::scalar(*self.rng.pick(&["", "s", "two words", "é", "<b>"])),
            2 => Value::scalar(self.rng.chance(1, 2)),
            3 => Value::Nil,
            4 => Value::scalar(self.rng.range(0, 3)),
            5 => Value::scalar("1"),
            _ => Value::scalar(self.rng.range(0, 5)),
        }
    }

    pub fn value(&mut self, depth: usize) -> Value {
        if depth == 0 || self.rng.chance(1, 2) {
            return self.scalar();
        }
        if self.rng.chance(2, 3) {
            let n = self.rng.below(5);
            Value::Array((0..n).map(|_| self.value(depth - 1)).collect())
        } else {
            let mut o = Object::new();
            if self.rng.chance(2, 3) {
                let k = self.name();
                let v = self.value(depth - 1);
                o.insert(k.into(), v);
            }
            Value::Object(o)
        }
    }

    /// caller data: a random subset of the name alphabet bound to random values (objects with at
    /// most one key so that printing them does not depend on hash order)
    pub fn data(&mut self) -> Object {
        let mut o = Object::new();
        for n in NAMES {
            if self.rng.chance(2, 3) {
                let v = self.value(2);
                o.insert(n.into(), v);
            }
        }
        o.insert("arr".into(), Value::Array((1..=3).map(Value::scalar).collect::<Vec<_>>()));
        o
    }

    pub fn expr(&mut self) -> Expr {
        match self.rng.below(10) {
            0..=4 => var(&self.name()),
            5 => Expr::Lit(self.scalar()),
            6 => Expr::Var(self.name(), vec![lit_i(self.rng.range(-2, 3))]),
            7 => Expr::Var(self.name(), vec![lit_s(*self.rng.pick(&["size", "first", "last", "a", "b"]))]),
            8 => match self.rng.below(4) {
                0 => path("forloop", &["parentloop", *self.rng.pick(&["index", "length", "first"])]),
                _ => path("forloop", &[*self.rng.pick(&["index", "index0", "first", "last", "length", "rindex"])]),
            },
            _ => var("arr"),
        }
    }

    /// an expression that always evaluates (no missing variable): literal or `arr`
    pub fn safe_expr(&mut self) -> Expr {
        if self.guarded || self.rng.chance(1, 2) {
            Expr::Lit(self.scalar())
        } else {
            var("arr")
        }
    }

    pub fn e(&mut self) -> Expr {
        if self.allow_errors {
            self.expr()
        } else {
            self.safe_expr()
        }
    }

    pub fn cond(&mut self) -> Cond {
        if self.guarded {
            // existence probes never fail: also of the loop object and of the enclosing loop's
            if self.rng.chance(1, 6) {
                return Cond::Exist(match self.rng.below(3) {
                    0 => var("forloop"),
                    1 => path("forloop", &["parentloop"]),
                    _ => path("forloop", &["parentloop", "parentloop"]),
                });
            }
            return if self.rng.chance(1, 2) { Cond::Exist(var(&self.name())) } else { Cond::Bin(Expr::Lit(self.scalar()), *self.rng.pick(&[CmpOp::Eq, CmpOp::Ne]), Expr::Lit(self.scalar())) };
        }
        match self.rng.below(5) {
            0 | 1 => Cond::Exist(self.expr()),
            2 => Cond::Bin(self.e(), *self.rng.pick(&[CmpOp::Eq, CmpOp::Ne, CmpOp::Lt, CmpOp::Ge]), self.e()),
            3 => {
                // a flat chain of 2..4 atoms joined by any mix of `and` / `or`
                let n = 2 + self.rng.below(3);
                let mut toks = vec![FlatTok::Atom(Cond::Exist(self.expr()))];
                for _ in 1..n {
                    toks.push(if self.rng.chance(1, 2) { FlatTok::And } else { FlatTok::Or });
                    toks.push(FlatTok::Atom(Cond::Exist(self.expr())));
                }
                Cond::Flat(toks)
            }
            _ => Cond::Bin(path("forloop", &["index0"]), CmpOp::Eq, lit_i(self.rng.range(0, 2))),
        }
    }

    pub fn body(&mut self, depth: usize, max_len: usize) -> Vec<Node> {
        let n = 1 + self.rng.below(max_len);
        let raw: Vec<Node> = (0..n).map(|_| self.node(depth)).collect();
        // adjacent text nodes are one `Text` element for the parser: merge them so that the AST
        // sent to the model is the one the parser builds
        let mut out: Vec<Node> = Vec::new();
        for nd in raw {
            match (out.last_mut(), &nd) {
                (Some(Node::Text(a)), Node::Text(b)) => a.push_str(b),
                _ => out.push(nd),
            }
        }
        out
    }

    pub fn node(&mut self, depth: usize) -> Node {
        let leaf = depth == 0;
        let k = self.rng.below(if leaf { 9 } else { 20 });
        match k {
            0 | 1 => text(*self.rng.pick(&["t", " ", "-", "é", "\n", "<"])),
            2 | 3 if self.guarded && self.rng.chance(2, 3) => {
                let n = self.name();
                Node::Cond { c: Cond::Exist(var(&n)), mode: true, thn: vec![out(var(&n))], els: None, elsif: false }
            }
            2 | 3 => out(self.e()),
            4 => Node::Assign(self.name(), self.e(), vec![]),
            5 | 6 if self.no_counters => Node::Assign(self.name(), self.e(), vec![]),
            5 => Node::Incr(self.name()),
            6 => Node::Decr(self.name()),
            7 => {
                if self.in_loop > 0 && self.rng.chance(1, 2) {
                    if self.rng.chance(1, 2) { Node::Break } else { Node::Continue }
                } else {
                    Node::Cycle { name: if self.rng.chance(1, 2) { Some(self.name()) } else { None }, vals: vec![lit_s("p"), lit_s("q"), lit_i(3)] }
                }
            }
            8 => Node::Raw("{{ raw }}".into()),
            9 | 10 => {
                let x = self.name();
                let rng = match if self.guarded { 0 } else { self.rng.below(4) } {
                    0 => RangeE::Counted(lit_i(1), lit_i(self.rng.range(0, 3))),
                    1 => RangeE::Arr(var("arr")),
                    _ => RangeE::Arr(self.e()),
                };
                self.in_loop += 1;
                let body = self.body(depth - 1, 3);
                self.in_loop -= 1;
                Node::For {
                    x,
                    rng,
                    limit: if self.rng.chance(1, 4) { Some(lit_i(self.rng.range(0, 3))) } else { None },
                    offset: if self.rng.chance(1, 4) { Some(lit_i(self.rng.range(0, 2))) } else { None },
                    rev: self.rng.chance(1, 4),
                    body,
                    els: if self.rng.chance(1, 3) { Some(self.body(depth - 1, 2)) } else { None },
                }
            }
            11 | 12 => Node::Cond {
                c: self.cond(),
                mode: self.rng.chance(3, 4),
                thn: self.body(depth - 1, 3),
                els: if self.rng.chance(1, 2) { Some(self.body(depth - 1, 2)) } else { None },
                elsif: false,
            },
            13 => Node::Capture(self.name(), self.body(depth - 1, 3)),
            14 => Node::IfChanged(self.body(depth - 1, 2)),
            15 => Node::Case {
                target: self.e(),
                arms: vec![(vec![Expr::Lit(self.scalar()), self.e()], self.body(depth - 1, 2)), (vec![Expr::Lit(self.scalar())], self.body(depth - 1, 2))],
                els: if self.rng.chance(1, 2) { Some(self.body(depth - 1, 2)) } else { None },
                comma: self.rng.chance(1, 2),
            },
            16 => Node::TableRow {
                x: self.name(),
                rng: if self.guarded { RangeE::Counted(lit_i(1), lit_i(self.rng.range(0, 3))) } else { RangeE::Arr(var("arr")) },
                cols: if self.rng.chance(1, 2) { Some(lit_i(self.rng.range(1, 3))) } else { None },
                limit: None,
                offset: None,
                body: self.body(depth - 1, 2),
            },
            17 | 18 if self.allow_partials && !self.partials.is_empty() => {
                let p = self.rng.pick(&self.partials.clone()).clone();
                let name = if self.dynamic_names && self.rng.chance(1, 4) { var("pname") } else { lit_s(&p) };
                let nargs = self.rng.below(3);
                let args: Vec<(String, Expr)> = (0..nargs).map(|_| (self.name(), self.safe_expr())).collect();
                if self.rng.chance(1, 2) {
                    Node::Include(name, args)
                } else {
                    let form = match self.rng.below(4) {
                        0 => RForm::With(self.safe_expr(), self.name()),
                        1 => RForm::For(if self.guarded { RangeE::Counted(lit_i(1), lit_i(self.rng.range(0, 3))) } else { RangeE::Arr(var("arr")) }, self.name()),
                        _ => RForm::Plain,
                    };
                    Node::Render(name, form, args)
                }
            }
            _ => Node::Comment(" c ".into()),
        }
    }
}
