//! C10: a failing output sink produces an error and a clean prefix, never a panic.
//! For every generated template a counting sink measures the W raw `write` calls of the fault-free
//! run; the render is then repeated failing at every k in 1..=W (and in a short-write variant).
use crate::ast::*;
use crate::gen::Gen;
use crate::proto::enc_view;
use crate::run::*;
use crate::Ctx;
use liquid_core::model::Object;
use std::io::Write;
use std::panic::{catch_unwind, AssertUnwindSafe};

struct FaultSink {
    chunks: Vec<Vec<u8>>,
    accepted: Vec<u8>,
    fail_at: Option<usize>, // 1-based index of the failing write call
    short: bool,            // accept half of the failing call first, fail on the next call
    calls: usize,
    failed: bool,
    calls_after_failure: usize,
    short_done: bool,
}

impl Write for FaultSink {
    fn write(&mut self, buf: &[u8]) -> std::io::Result<usize> {
        if self.failed {
            self.calls_after_failure += 1;
            return Err(std::io::Error::new(std::io::ErrorKind::Other, "sink failed"));
        }
        self.calls += 1;
        if let Some(k) = self.fail_at {
            if self.short && !self.short_done && self.calls == k && buf.len() >= 2 {
                let n = buf.len() / 2;
                self.accepted.extend_from_slice(&buf[..n]);
                self.short_done = true;
                return Ok(n);
            }
            if self.calls >= k && (!self.short || self.short_done || buf.len() < 2) {
                self.failed = true;
                return Err(std::io::Error::new(std::io::ErrorKind::Other, "sink failed"));
            }
        }
        self.chunks.push(buf.to_vec());
        self.accepted.extend_from_slice(buf);
        Ok(buf.len())
    }
    fn flush(&mut self) -> std::io::Result<()> {
        Ok(())
    }
}

fn sink(fail_at: Option<usize>, short: bool) -> FaultSink {
    FaultSink { chunks: vec![], accepted: vec![], fail_at, short, calls: 0, failed: false, calls_after_failure: 0, short_done: false }
}

/// measure one template: fault-free run, then a failure at every write index (plain and short)
fn one(ctx: &mut Ctx, kind: &str, t: &[Node], partials: &[PartialDef], data: &Object) {
    let data = data.clone();
    let t = t.to_vec();
    let partials = partials.to_vec();
    let parser = build_parser(&partials, Policy::Eager);
    let text = src_tmpl(&t);
    let tmpl = match catch_unwind(AssertUnwindSafe(|| parser.parse(&text))) {
        Ok(Ok(t)) => t,
        _ => return, // C01's business
    };
    // buffered render and fault-free streaming
    let buffered = catch_unwind(AssertUnwindSafe(|| tmpl.render(&data)));
    let mut s0 = sink(None, false);
    let r0 = catch_unwind(AssertUnwindSafe(|| tmpl.render_to(&mut s0, &data)));
    let obs = match (&r0, &buffered) {
        (Ok(Ok(())), Ok(Ok(b))) => {
            if b.as_bytes() == s0.accepted.as_slice() {
                Obs::Ok(b.clone())
            } else {
                Obs::BadUtf8(s0.accepted.clone())
            }
        }
        (Ok(Err(e)), Ok(Err(_))) => Obs::Err(e.to_string()),
        (Err(_), _) | (_, Err(_)) => Obs::Panic("panic".into()),
        _ => Obs::BadUtf8(b"streamed and buffered results differ".to_vec()),
    };
    let w = s0.calls;
    let mut faults = Vec::new();
    for short in [false, true] {
        for k in 1..=w {
            let mut s = sink(Some(k), short);
            let r = catch_unwind(AssertUnwindSafe(|| tmpl.render_to(&mut s, &data)));
            let tag = match r {
                Ok(Ok(())) => "ok",
                Ok(Err(ref e)) if e.to_string().is_empty() => "err-nomsg",
                Ok(Err(_)) => "err",
                Err(_) => "PANIC",
            };
            let is_prefix = s0.accepted.starts_with(&s.accepted);
            faults.push(format!("{} {} {} {} {} {}", if short { "s" } else { "f" }, k, tag, s.accepted.len(), is_prefix as u8, s.calls_after_failure));
        }
    }
    let mut toks = Vec::new();
    enc_tmpl(&t, &mut toks);
    let mut d = Vec::new();
    enc_view(&data, &mut d);
    let chunk_lens: Vec<String> = s0.chunks.iter().map(|c| c.len().to_string()).collect();
    ctx.emit(format!(
        "sink {} {} {} {} => {} chunks {} {} faults {} {} #{}:{}",
        kind,
        toks.join(" "),
        d.join(" "),
        partial_tokens(&partials),
        obs.tokens(),
        chunk_lens.len(),
        chunk_lens.join(" "),
        faults.len(),
        faults.join(" "),
        crate::proto::xs(&text),
        crate::proto::xs(&serde_json::to_string(&data).unwrap_or_default()),
    ));
}

/// templates in which a construct keeps writing while an interrupt is pending (ifchanged flushes its
/// buffer after a `break` inside it, tablerow closes its cell and row, an include returns into a loop
/// body): a sink failure on such a write must surface like any other
fn late_writers() -> Vec<(Vec<Node>, Vec<PartialDef>)> {
    let arr3 = RangeE::Counted(lit_i(1), lit_i(3));
    let f = |body: Vec<Node>| Node::For { x: "i".into(), rng: RangeE::Counted(lit_i(1), lit_i(3)), limit: None, offset: None, rev: false, body, els: None };
    let mut v: Vec<(Vec<Node>, Vec<PartialDef>)> = Vec::new();
    for intr in [Node::Break, Node::Continue] {
        v.push((vec![f(vec![Node::IfChanged(vec![out(var("i")), intr.clone()]), text("|")]), text(" tail")], vec![]));
        v.push((vec![f(vec![Node::TableRow { x: "j".into(), rng: arr3.clone(), cols: Some(lit_i(2)), limit: None, offset: None, body: vec![out(var("j")), intr.clone()] }, text("-")]), text("end")], vec![]));
        v.push((vec![f(vec![text("["), Node::Include(lit_s("brk"), vec![]), text("]")]), text("end")], vec![("brk".into(), Ok(vec![text("in"), intr.clone(), text("never")]))]));
        v.push((vec![f(vec![f(vec![out(var("i")), Node::IfChanged(vec![text("c"), intr.clone()])]), text(";")]), text("end")], vec![]));
        v.push((vec![f(vec![Node::Capture("c".into(), vec![text("x"), intr.clone()]), out(var("c")), text("?")]), text("end")], vec![]));
        v.push((vec![Node::TableRow { x: "j".into(), rng: arr3.clone(), cols: Some(lit_i(2)), limit: None, offset: None, body: vec![f(vec![out(var("i")), intr.clone()]), text("c")] }, text("end")], vec![]));
        v.push((vec![f(vec![Node::Render(lit_s("loop"), RForm::For(arr3.clone(), "k".into()), vec![]), text("/")]), text("end")], vec![("loop".into(), Ok(vec![out(var("k")), intr.clone(), text("never")]))]));
    }
    // both spellings of a partial exist: a failure inside `card` must surface, not fall back to `card.liquid`
    v.push((vec![text("a"), Node::Render(lit_s("card"), RForm::Plain, vec![("t".into(), lit_s("q"))]), text("b")],
            vec![("card".into(), Ok(vec![text("<"), out(var("t")), text("|"), out(var("t")), text(">")])), ("card.liquid".into(), Ok(vec![text("["), out(var("t")), text("]")]))]));
    v.push((vec![Node::Render(lit_s("card"), RForm::For(RangeE::Counted(lit_i(1), lit_i(2)), "t".into()), vec![]), text("b")],
            vec![("card".into(), Ok(vec![text("<"), out(var("t")), text(">")])), ("card.liquid".into(), Ok(vec![text("["), out(var("t")), text("]")]))]));
    // a trailing partial row: `</tr>` is written once more after the last cell
    v.push((vec![Node::TableRow { x: "j".into(), rng: arr3.clone(), cols: Some(lit_i(2)), limit: None, offset: None, body: vec![out(var("j"))] }, text(" tail")], vec![]));
    v
}

pub fn run(ctx: &mut Ctx) {
    for (t, partials) in late_writers() {
        one(ctx, "late", &t, &partials, &Object::new());
    }
    // a construct that mentions its subject again on the error path must not re-evaluate it: the
    // subject's root may have been re-bound inside the branch that was running
    {
        let mut d = Object::new();
        let mut x = Object::new();
        x.insert("y".into(), liquid_core::model::Value::scalar(1i64));
        d.insert("x".into(), liquid_core::model::Value::Object(x));
        let rebind_assign = vec![text("b"), Node::Assign("x".into(), lit_i(5), vec![]), text("c"), out(var("x")), text("d")];
        let rebind_capture = vec![text("b"), Node::Capture("x".into(), vec![text("q")]), text("c"), out(var("x")), text("d")];
        for body in [rebind_assign, rebind_capture] {
            let when = Node::Case { target: path("x", &["y"]), arms: vec![(vec![lit_i(1)], body.clone())], els: Some(vec![text("e")]), comma: true };
            one(ctx, "late-subject", &[text("a"), when, text("f")], &[], &d);
            let els = Node::Case { target: path("x", &["y"]), arms: vec![(vec![lit_i(2)], vec![text("w")])], els: Some(body.clone()), comma: true };
            one(ctx, "late-subject", &[text("a"), els, text("f")], &[], &d);
            let cond = Node::Cond { c: Cond::Bin(path("x", &["y"]), CmpOp::Eq, lit_i(1)), mode: true, thn: body.clone(), els: Some(vec![text("e")]), elsif: false };
            one(ctx, "late-subject", &[text("a"), cond, text("f")], &[], &d);
            let lp = Node::For { x: "i".into(), rng: RangeE::Arr(path("x", &["y"])), limit: None, offset: None, rev: false, body: body.clone(), els: Some(body.clone()) };
            one(ctx, "late-subject", &[text("a"), lp, text("f")], &[], &d);
        }
    }
    // the error that carries a failure out of a construct may be decorated with run-time values (the
    // value a `case` switched on, the name of a partial): long values with multi-byte characters at
    // byte 128 / 256
    {
        let titles: Vec<String> = vec![
            format!("{}\u{e9}\u{65e5}\u{672c}{}", "a".repeat(127), "\u{e9}".repeat(18)),
            "\u{65e5}\u{672c}\u{8a9e}\u{306e}\u{3068}\u{3066}\u{3082}\u{9577}\u{3044}\u{984c}\u{540d}".repeat(6),
            format!("{}\u{1f600}x", "b".repeat(253)),
            "short".to_string(),
        ];
        for title in titles {
            let mut d = Object::new();
            d.insert("title".into(), liquid_core::model::Value::scalar(title.clone()));
            d.insert("kind".into(), liquid_core::model::Value::scalar("k"));
            let case = Node::Case { target: var("title"), arms: vec![(vec![lit_s("draft")], vec![text("(draft)")])], els: Some(vec![text("["), out(var("kind")), text("] "), out(var("title")), text("!")]), comma: true };
            one(ctx, "late-context", &[text("<h1>"), case.clone(), text("</h1>")], &[], &d);
            let f = Node::For { x: "i".into(), rng: RangeE::Counted(lit_i(1), lit_i(2)), limit: None, offset: None, rev: false, body: vec![case, text(";")], els: None };
            one(ctx, "late-context", &[f, text("end")], &[], &d);
            let ps: Vec<PartialDef> = vec![(title.clone(), Ok(vec![text("p:"), out(var("kind")), text(":"), out(var("kind"))]))];
            one(ctx, "late-context", &[text("a"), Node::Include(var("title"), vec![]), text("b")], &ps, &d);
            one(ctx, "late-context", &[text("a"), Node::Render(var("title"), RForm::Plain, vec![("kind".into(), lit_s("r"))]), text("b")], &ps, &d);
        }
    }
    let n = if ctx.tier_thorough { 50_000 } else { 2_500 };
    let mut g = Gen::new(ctx.seed ^ 0xC10);
    g.allow_partials = true;
    g.partials = vec!["p1".into(), "p2".into()];
    for i in 0..n {
        g.allow_errors = i % 4 == 0;
        // partials: p1 writes and assigns, p2 loops
        // no recursion between partials: p1 uses none, p2 may use p1
        g.dynamic_names = false;
        g.partials = vec![];
        let p1 = g.body(1, 3);
        g.partials = vec!["p1".into()];
        let p2 = g.body(2, 2);
        g.partials = vec!["p1".into(), "p2".into()];
        g.dynamic_names = true;
        let partials: Vec<PartialDef> = vec![("p1".into(), Ok(p1)), ("p2".into(), Ok(p2))];
        let t = g.body(3, 4);
        let mut data = g.data();
        data.insert("pname".into(), liquid_core::model::Value::scalar("p1"));
        one(ctx, "gen", &t, &partials, &data);
    }
}
