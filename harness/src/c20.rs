//! C20: parsers and templates shared across threads.  2..16 threads are released together by a
//! barrier and perform random sequences of parse+render calls on ONE shared parser (lazy partial
//! store with valid and broken partials first touched concurrently) and on shared parsed templates,
//! with start skew and yield injection; every call's result is compared with the sequential result
//! of the same call; a watchdog detects deadlock, a later sequential use detects poisoning.
use crate::ast::*;
use crate::c08::scenario;
use crate::gen::Gen;
use crate::run::*;
use crate::Ctx;
use std::panic::{catch_unwind, AssertUnwindSafe};
use std::sync::{mpsc, Arc, Barrier};

/// seconds without any thread finishing AND without any render in the process making progress
/// before a round is declared deadlocked (see `run::recv_watch`)
const IDLE_LIMIT: u64 = 45;

/// First simultaneous use of ONE lazily compiled partial that takes long to compile: all threads are
/// released together and touch it at once, so that every thread finds the cache empty.
fn hot_first_touch(ctx: &mut Ctx) {
    let rounds = if ctx.tier_thorough { 400 } else { 40 };
    let junk: String = std::iter::repeat("{{ 1 | plus: 2 }}{% assign q = 'z' %}").take(4000).collect();
    let big: Vec<Node> = vec![Node::Comment(junk), text("<big:"), Node::Incr("n".into()), text(">")];
    // a partial that calls itself 25 levels deep (bounded by a counter): deep nesting in many threads at once
    let rec: Vec<Node> = vec![
        Node::Capture("_".into(), vec![Node::Incr("n".into())]),
        // the deepest level does the slow part, so that the threads are deep at the same time
        Node::Cond { c: Cond::Bin(var("n"), CmpOp::Lt, lit_i(25)), mode: true, thn: vec![Node::Include(lit_s("rec"), vec![])],
                     els: Some(vec![Node::Capture("_".into(), vec![Node::For { x: "i".into(), rng: RangeE::Counted(lit_i(1), lit_i(3000)), limit: None, offset: None, rev: false, body: vec![out(var("i"))], els: None }])]), elsif: false },
        text("x"),
    ];
    let partials: Vec<PartialDef> = vec![
        ("big".into(), Ok(big)), ("rec".into(), Ok(rec)), ("broken".into(), Err(format!("{}{{% if %}}", "{{ 1 }}".repeat(4000)))),
        // two different partials whose names differ by the suffix `render` falls back to
        ("card".into(), Ok(vec![text("[bare "), out(var("n")), text("]")])),
        ("card.liquid".into(), Ok(vec![text("[suffixed "), out(var("n")), text("]")])),
    ];
    let templates: Vec<Vec<Node>> = vec![
        vec![Node::Render(lit_s("card"), RForm::Plain, vec![("n".into(), lit_i(1))])],
        vec![Node::Render(lit_s("card.liquid"), RForm::Plain, vec![("n".into(), lit_i(2))])],
        vec![Node::Include(lit_s("card.liquid"), vec![("n".into(), lit_i(3))]), Node::Include(lit_s("card"), vec![("n".into(), lit_i(4))])],
        vec![text("a"), Node::Include(lit_s("big"), vec![]), Node::Render(lit_s("big"), RForm::Plain, vec![])],
        vec![Node::Render(lit_s("big"), RForm::Plain, vec![]), text("b")],
        vec![text("c"), Node::Include(lit_s("broken"), vec![])],
        vec![Node::Include(lit_s("rec"), vec![]), text("|"), Node::Include(lit_s("rec"), vec![]), out(var("n"))],
    ];
    let texts: Arc<Vec<String>> = Arc::new(templates.iter().map(|t| src_tmpl(t)).collect());
    let data = Arc::new(liquid_core::model::Object::new());
    let reference: Vec<Obs> = texts.iter().map(|t| render_text(&build_parser(&partials, Policy::Lazy), t, &data)).collect();
    let mut rng = crate::rng::Rng::new(ctx.seed ^ 0x407_C20);
    let mut worst = "hot".to_string();
    for round in 0..rounds {
        let shared = Arc::new(build_parser(&partials, Policy::Lazy));
        let nthreads = 4 + rng.below(13);
        let barrier = Arc::new(Barrier::new(nthreads));
        let (tx, rx) = mpsc::channel::<(usize, String)>();
        for th in 0..nthreads {
            let (shared, barrier, texts, data, tx) = (shared.clone(), barrier.clone(), texts.clone(), data.clone(), tx.clone());
            // every other round all threads go down the recursive partial together
            let ti = if round % 2 == 1 { texts.len() - 1 } else { th % texts.len() };
            std::thread::spawn(move || {
                barrier.wait();
                for _ in 0..3 {
                    let obs = render_text(&shared, &texts[ti], &data);
                    let _ = tx.send((ti, obs.tokens()));
                }
            });
        }
        drop(tx);
        let mut got = Vec::new();
        let mut deadlock = false;
        for _ in 0..(3 * nthreads) {
            match recv_watch(&rx, IDLE_LIMIT) {
                Some(v) => got.push(v),
                None => {
                    deadlock = true;
                    break;
                }
            }
        }
        let after: Vec<Obs> = if deadlock { vec![] } else { texts.iter().map(|t| render_text(&shared, t, &data)).collect() };
        let poisoned = !deadlock && after.iter().zip(reference.iter()).any(|(a, b)| a.tokens() != b.tokens());
        let mismatch = got.iter().filter(|(ti, o)| *o != reference[*ti].tokens()).count();
        if deadlock {
            worst = "DEADLOCK".into();
        } else if poisoned && !worst.starts_with("DEADLOCK") {
            worst = "POISONED".into();
        } else if mismatch > 0 && worst == "hot" {
            worst = format!("MISMATCH:{}", mismatch);
        }
        if deadlock {
            break; // the stuck threads stay stuck; further rounds would only wait again
        }
    }
    // one line per template: the sequential result is what the model must predict; the label says
    // whether any of the concurrent rounds deviated from it
    for (ti, t) in templates.iter().enumerate() {
        ctx.emit(render_case("c20", &worst, t, &data, &partials, &reference[ti]));
    }
}

/// ONE parsed template shared by all threads, each thread rendering it with its own data (a different
/// partial name, a different collection): what a render returns must depend on its own data only.
fn shared_template_own_data(ctx: &mut Ctx) {
    let rounds = if ctx.tier_thorough { 200 } else { 20 };
    let partials: Vec<PartialDef> = vec![
        ("row_a".into(), Ok(vec![text("<a "), out(var("i")), text(">")])),
        ("row_b".into(), Ok(vec![text("<b "), out(var("i")), text(">")])),
    ];
    let t: Vec<Node> = vec![
        Node::Render(var("which"), RForm::For(RangeE::Counted(lit_i(1), lit_i(6)), "i".into()), vec![]),
        text("|"),
        Node::Include(var("which"), vec![("i".into(), lit_i(0))]),
        Node::For { x: "k".into(), rng: RangeE::Arr(var("ks")), limit: None, offset: None, rev: false, body: vec![Node::Render(var("which"), RForm::With(var("k"), "i".into()), vec![])], els: None },
    ];
    let src = src_tmpl(&t);
    let mk = |which: &str, ks: Vec<i64>| {
        let mut d = liquid_core::model::Object::new();
        d.insert("which".into(), liquid_core::model::Value::scalar(which.to_string()));
        d.insert("ks".into(), liquid_core::model::Value::Array(ks.into_iter().map(liquid_core::model::Value::scalar).collect()));
        d
    };
    let datas = Arc::new(vec![mk("row_a", vec![1, 2, 3]), mk("row_b", vec![9, 8]), mk("row_a", vec![]), mk("row_b", vec![5])]);
    let reference: Vec<Obs> = datas.iter().map(|d| render_text(&build_parser(&partials, Policy::Lazy), &src, d)).collect();
    let mut worst = "own-data".to_string();
    for _ in 0..rounds {
        let shared = build_parser(&partials, Policy::Lazy);
        let tmpl = match shared.parse(&src) {
            Ok(t) => Arc::new(t),
            Err(_) => break,
        };
        let nthreads = 8;
        let barrier = Arc::new(Barrier::new(nthreads));
        let (tx, rx) = mpsc::channel::<(usize, String)>();
        for th in 0..nthreads {
            let (tmpl, barrier, datas, tx) = (tmpl.clone(), barrier.clone(), datas.clone(), tx.clone());
            std::thread::spawn(move || {
                barrier.wait();
                for n in 0..200 {
                    let di = (th + n) % datas.len();
                    progress();
                    let res = catch_unwind(AssertUnwindSafe(|| tmpl.render(&datas[di])));
                    let obs = match res {
                        Ok(Ok(s)) => Obs::Ok(s),
                        Ok(Err(e)) => Obs::Err(e.to_string()),
                        Err(e) => Obs::Panic(panic_msg(e)),
                    };
                    if tx.send((di, obs.tokens())).is_err() {
                        break;
                    }
                    if n % 7 == th % 7 {
                        std::thread::yield_now();
                    }
                }
            });
        }
        drop(tx);
        let mut bad = 0;
        let mut got = 0;
        while let Some((di, o)) = recv_watch(&rx, IDLE_LIMIT) {
            got += 1;
            if o != reference[di].tokens() {
                bad += 1;
            }
        }
        if got < nthreads * 200 {
            worst = "DEADLOCK".into();
            break;
        } else if bad > 0 && worst == "own-data" {
            worst = format!("MISMATCH:{}", bad);
        }
    }
    for (di, d) in datas.iter().enumerate() {
        ctx.emit(render_case("c20", &worst, &t, d, &partials, &reference[di]));
    }
}

pub fn run(ctx: &mut Ctx) {
    hot_first_touch(ctx);
    shared_template_own_data(ctx);
    let rounds = if ctx.tier_thorough { 20_000 } else { 250 };
    let mut g = Gen::new(ctx.seed ^ 0xC20);
    let mut deadlocks = 0;
    for round in 0..rounds {
        g.allow_errors = round % 2 == 0;
        let sc = scenario(&mut g);
        // 1..3 further templates over the same partials
        let mut templates = vec![sc.main.clone()];
        g.partials = sc.partials.iter().map(|(n, _)| n.clone()).collect();
        g.dynamic_names = true;
        for _ in 0..(1 + g.rng.below(3)) {
            templates.push(g.body(3, 4));
        }
        g.dynamic_names = false;
        let texts: Vec<String> = templates.iter().map(|t| src_tmpl(t)).collect();
        // sequential reference on a fresh parser per call
        let reference: Vec<Obs> = texts.iter().map(|t| render_text(&build_parser(&sc.partials, Policy::Lazy), t, &sc.data)).collect();
        // shared objects
        let shared = Arc::new(build_parser(&sc.partials, Policy::Lazy));
        let pre: Vec<Option<Arc<liquid::Template>>> = texts.iter().map(|t| catch_unwind(AssertUnwindSafe(|| shared.parse(t).ok())).ok().flatten().map(Arc::new)).collect();
        let pre = Arc::new(pre);
        let nthreads = 2 + g.rng.below(15);
        let barrier = Arc::new(Barrier::new(nthreads));
        let texts = Arc::new(texts);
        let data = Arc::new(sc.data.clone());
        let (tx, rx) = mpsc::channel::<Vec<(usize, String)>>();
        for th in 0..nthreads {
            let mut r = g.rng.fork();
            let (shared, pre, barrier, texts, data, tx) = (shared.clone(), pre.clone(), barrier.clone(), texts.clone(), data.clone(), tx.clone());
            std::thread::spawn(move || {
                let ncalls = 1 + r.below(6);
                let plan: Vec<(usize, bool, bool)> = (0..ncalls).map(|_| (r.below(texts.len()), r.chance(1, 2), r.chance(1, 3))).collect();
                let skew = r.below(4);
                barrier.wait();
                for _ in 0..skew {
                    std::thread::yield_now();
                }
                let mut out = Vec::new();
                for (ti, use_shared_template, yield_first) in plan {
                    if yield_first {
                        std::thread::yield_now();
                    }
                    let obs = match (&pre[ti], use_shared_template) {
                        (Some(t), true) => {
                            // render a template object shared by all threads
                            progress();
                            let res = catch_unwind(AssertUnwindSafe(|| t.render(&*data)));
                            match res {
                                Ok(Ok(s)) => Obs::Ok(s),
                                Ok(Err(e)) => Obs::Err(e.to_string()),
                                Err(e) => Obs::Panic(panic_msg(e)),
                            }
                        }
                        _ => render_text(&shared, &texts[ti], &data),
                    };
                    out.push((ti, obs.tokens()));
                }
                let _ = tx.send(out);
                let _ = th;
            });
        }
        drop(tx);
        let mut got: Vec<(usize, String)> = Vec::new();
        let mut finished = 0;
        let mut deadlock = false;
        while finished < nthreads {
            match recv_watch(&rx, IDLE_LIMIT) {
                Some(v) => {
                    got.extend(v);
                    finished += 1;
                }
                None => {
                    deadlock = true;
                    break;
                }
            }
        }
        // poisoning: the shared parser must still work afterwards
        let after: Vec<Obs> = if deadlock { vec![] } else { texts.iter().map(|t| render_text(&shared, t, &data)).collect() };
        let poisoned = !deadlock && after.iter().zip(reference.iter()).any(|(a, b)| a.tokens() != b.tokens());
        let mismatch = got.iter().filter(|(ti, o)| *o != reference[*ti].tokens()).count();
        let kind = if deadlock {
            "DEADLOCK".to_string()
        } else if poisoned {
            "POISONED".to_string()
        } else if mismatch > 0 {
            format!("MISMATCH:{}", mismatch)
        } else {
            format!("conc:{}:{}", nthreads, got.len())
        };
        // one line per template of the round: the sequential result is what the model must predict
        for (ti, t) in templates.iter().enumerate() {
            ctx.emit(render_case("c20", &kind, t, &sc.data, &sc.partials, &reference[ti]));
        }
        if deadlock {
            deadlocks += 1;
            if deadlocks >= 3 {
                break; // three witnesses are enough; every further one costs the whole idle limit
            }
        }
    }
}
