//! C16: escape / escape_once / url_encode / url_decode / strip_html are safe and invertible.
//! Follows the property's quantifier text: exhaustively all strings up to length 5 over the
//! 14-character entity alphabet (escape, escape_once), up to length 4 over the 9-character URL
//! alphabet, up to length 6 over the 12-character tag alphabet (strip_html); then token-level
//! enumerations that spell the entities / percent escapes / tags the character alphabets cannot
//! (`&gt;`, `&quot;`, `&#39;`, `%C3%A9`, `<SCRIPT`, `ſ`), random longer strings, the
//! "existing entity stays" law at every split, UTF-8 validity of every byte string up to length 3
//! as seen through `url_decode`, the case-folding table of the strip_html regexes over all scalar
//! values, and non-string inputs.  quick tier = the same streams at reduced bounds.
use crate::filters::{self, filter_case};
use crate::proto::{hex_bytes, xs};
use crate::rng::Rng;
use crate::Ctx;
use liquid_core::model::{Value, ValueView};
use liquid_core::parser::FilterArguments;
use liquid_core::runtime::{Expression, RuntimeBuilder};
use liquid_core::{Filter, Runtime};
use std::panic::{catch_unwind, AssertUnwindSafe};

/// one filter application on a string input
enum SObs {
    Ok(String),
    Other,
    Err(bool),
    Panic,
}

impl SObs {
    fn tok(&self) -> String {
        match self {
            SObs::Ok(s) => xs(s),
            SObs::Other => "?".into(),
            SObs::Err(true) => "E".into(),
            SObs::Err(false) => "e".into(),
            SObs::Panic => "P".into(),
        }
    }
    fn str(&self) -> Option<&str> {
        match self {
            SObs::Ok(s) => Some(s),
            _ => None,
        }
    }
}

fn tag(parts: &[&SObs]) -> &'static str {
    if parts.iter().any(|p| matches!(p, SObs::Panic)) {
        "PANIC"
    } else if parts.iter().any(|p| matches!(p, SObs::Err(_))) {
        "err"
    } else {
        "ok"
    }
}

struct Filters<'a> {
    rt: &'a dyn Runtime,
    escape: Box<dyn Filter>,
    once: Box<dyn Filter>,
    strip: Box<dyn Filter>,
    enc: Box<dyn Filter>,
    dec: Box<dyn Filter>,
}

fn build(lang: &liquid_core::parser::Language, name: &str) -> Box<dyn Filter> {
    let pf = lang.filters.get(name).expect("stdlib filter");
    let positional: Vec<Expression> = Vec::new();
    let keyword: Vec<(&str, Expression)> = Vec::new();
    let fa = FilterArguments { positional: Box::new(positional.into_iter()), keyword: Box::new(keyword.into_iter()) };
    pf.parse(fa).expect("no-argument filter")
}

fn call(f: &dyn Filter, rt: &dyn Runtime, s: &str) -> SObs {
    let input = Value::scalar(s.to_owned());
    let r = catch_unwind(AssertUnwindSafe(|| match f.evaluate(input.as_view(), rt) {
        Ok(v) => match v.as_scalar() {
            Some(sc) if sc.type_name() == "string" => SObs::Ok(sc.to_kstr().as_str().to_owned()),
            _ => SObs::Other,
        },
        Err(e) => SObs::Err(!e.to_string().is_empty()),
    }));
    r.unwrap_or(SObs::Panic)
}

/// every string of length 0..=max over `alpha`, shortest first
fn for_all_strings(alpha: &[&str], max: usize, mut f: impl FnMut(usize, &str)) {
    let mut s = String::new();
    for len in 0..=max {
        let mut idx = vec![0usize; len];
        loop {
            s.clear();
            for &i in &idx {
                s.push_str(alpha[i]);
            }
            f(len, &s);
            // odometer increment
            let mut k = len;
            let mut done = true;
            while k > 0 {
                k -= 1;
                idx[k] += 1;
                if idx[k] < alpha.len() {
                    done = false;
                    break;
                }
                idx[k] = 0;
            }
            if done {
                break;
            }
        }
    }
}

const ESC_ALPHA: &[&str] = &["<", ">", "&", "\"", "'", ";", "#", "a", "l", "t", "m", "p", " ", "é", "日", "😀"];
const ESC_TOKENS: &[&str] = &[
    "&lt;", "&gt;", "&#39;", "&quot;", "&amp;", "&lt", "&gt", "&#39", "&quot", "&amp", "lt;", "gt;", "#39;", "quot;", "amp;",
    "&", ";", "<", ">", "\"", "'", "&#3", "&quo", "&&", "&#x27;", "&LT;", "x", "é", "&amp;amp;", "&apos;",
];
const ENTITIES: &[&str] = &["&lt;", "&gt;", "&#39;", "&quot;", "&amp;"];
const URL_ALPHA: &[&str] = &["%", "+", "2", "F", "f", " ", "/", "é", "😀"];
const URL_TOKENS: &[&str] = &[
    "%", "%C3", "%A9", "%c3", "%a9", "%E2", "%82", "%AC", "%F0", "%9F", "%98", "%80", "%ED", "%A0", "%C0", "%AF", "%FF", "%2", "%2F",
    "%2f", "%2B", "%25", "%zz", "%%", "+", "a", "-._~", "é", "😀", "%F4", "%8F", "%90", "%BF", "%00", "%7F", "%G1", "%1g",
    // the replacement character is a character like any other
    "\u{fffd}", "%EF", "%BD", "%EF%BF%BD",
];
const TAG_ALPHA: &[&str] = &["<", ">", "!", "-", "/", "s", "c", "r", "i", "p", "t", "a"];
const TAG_TOKENS: &[&str] = &[
    "<script", "</script>", "<style", "</style>", "<!--", "-->", "<", ">", "<SCRIPT", "</ScRiPt>", "<\u{17f}cript", "</\u{17f}tyle>",
    "<STYLE", "</sTYLE>", "x", "\n", "é", "<p>", "</p>", "<scr", "ipt>", "<!-", "->", "</script", "<\u{212a}>", "<ſtyle", "--", "<!-->",
];

fn random_string(rng: &mut Rng, pools: &[&[&str]], max_len: usize) -> String {
    let n = 1 + rng.below(max_len);
    let mut s = String::new();
    for _ in 0..n {
        match rng.below(10) {
            0 => {
                // any scalar value, biased to boundaries
                let cp = match rng.below(8) {
                    0 => rng.below(0x80) as u32,
                    1 => 0x80 + rng.below(0x780) as u32,
                    2 => 0x800 + rng.below(0xF800) as u32,
                    3 => 0x10000 + rng.below(0x100000) as u32,
                    4 => *rng.pick(&[0x7Fu32, 0x80, 0x7FF, 0x800, 0xD7FF, 0xE000, 0xFFFF, 0x10000, 0x10FFFF, 0]),
                    5 => *rng.pick(&[0x17Fu32, 0x212A, 0x130, 0x131, 0x53, 0x73, 0x4B, 0x6B]),
                    _ => 0x20 + rng.below(0x5F) as u32,
                };
                if let Some(c) = char::from_u32(cp) {
                    s.push(c);
                }
            }
            _ => {
                let pool: &[&str] = pools[rng.below(pools.len())];
                s.push_str(pool[rng.below(pool.len())]);
            }
        }
    }
    s
}

fn esc_case(ctx: &mut Ctx, f: &Filters, kind: &str, s: &str) {
    let a = call(&*f.escape, f.rt, s);
    let b = call(&*f.once, f.rt, s);
    let c = match b.str() {
        Some(o) => call(&*f.once, f.rt, o),
        None => SObs::Other,
    };
    ctx.emit(format!("c16esc {} {} => {} {} {} {}", kind, xs(s), tag(&[&a, &b, &c]), a.tok(), b.tok(), c.tok()));
}

fn keep_case(ctx: &mut Ctx, f: &Filters, kind: &str, p: &str, e: &str, t: &str) {
    let whole = format!("{}{}{}", p, e, t);
    let a = call(&*f.once, f.rt, &whole);
    let b = call(&*f.once, f.rt, p);
    let c = call(&*f.once, f.rt, t);
    ctx.emit(format!("c16keep {} {} {} {} => {} {} {} {}", kind, xs(p), xs(e), xs(t), tag(&[&a, &b, &c]), a.tok(), b.tok(), c.tok()));
}

fn url_case(ctx: &mut Ctx, f: &Filters, kind: &str, s: &str) {
    let a = call(&*f.enc, f.rt, s);
    let b = match a.str() {
        Some(e) => call(&*f.dec, f.rt, e),
        None => SObs::Other,
    };
    let c = call(&*f.dec, f.rt, s);
    // the summary tag ignores the (legitimate) error of decoding an arbitrary string
    let t = if matches!(c, SObs::Panic) { "PANIC" } else if matches!(c, SObs::Err(_)) && tag(&[&a, &b]) == "ok" { "dec-err" } else { tag(&[&a, &b]) };
    ctx.emit(format!("c16url {} {} => {} {} {} {}", kind, xs(s), t, a.tok(), b.tok(), c.tok()));
}

fn strip_case(ctx: &mut Ctx, f: &Filters, kind: &str, s: &str) {
    let a = call(&*f.strip, f.rt, s);
    ctx.emit(format!("c16strip {} {} => {} {}", kind, xs(s), tag(&[&a]), a.tok()));
}

/// does `url_decode` accept these bytes (sent as `%XX` each)?  '1' accepted and returned exactly
/// these bytes, '0' error, '2' accepted but returned something else (lossy), None = panic
fn accepts(f: &Filters, bytes: &[u8]) -> Option<char> {
    let mut s = String::with_capacity(bytes.len() * 3);
    for b in bytes {
        s.push_str(&format!("%{:02X}", b));
    }
    match call(&*f.dec, f.rt, &s) {
        SObs::Ok(out) => {
            Some(if out.as_bytes() == bytes { '1' } else { '2' })
        }
        SObs::Err(_) => Some('0'),
        _ => None,
    }
}

fn utf_mask(ctx: &mut Ctx, f: &Filters, kind: &str, prefix: &[u8]) {
    let mut bits = String::with_capacity(256);
    let mut bytes = prefix.to_vec();
    bytes.push(0);
    let mut panicked = false;
    for b in 0..=255u8 {
        *bytes.last_mut().unwrap() = b;
        match accepts(f, &bytes) {
            Some(c) => bits.push(c),
            None => {
                panicked = true;
                bits.push('0')
            }
        }
    }
    let hexp = if prefix.is_empty() { "-".to_string() } else { hex_bytes(prefix) };
    if panicked {
        ctx.emit(format!("c16utfm {} {} => PANIC PANIC", kind, hexp));
    } else {
        ctx.emit(format!("c16utfm {} {} => ok {}", kind, hexp, bits));
    }
}

fn utf_one(ctx: &mut Ctx, f: &Filters, kind: &str, bytes: &[u8]) {
    let hexp = if bytes.is_empty() { "-".to_string() } else { hex_bytes(bytes) };
    match accepts(f, bytes) {
        Some(v) => ctx.emit(format!("c16utf1 {} {} => ok {}", kind, hexp, v)),
        None => ctx.emit(format!("c16utf1 {} {} => PANIC PANIC", kind, hexp)),
    }
}

/// which scalar values in [lo, hi] match `word[pos]` case-insensitively in the opener
/// (`closer == false`) or the closer of the script/style regex?
fn fold_scan(ctx: &mut Ctx, f: &Filters, word: &str, pos: usize, closer: bool, lo: u32, hi: u32) {
    let letters: Vec<char> = word.chars().collect();
    let mut hits: Vec<String> = Vec::new();
    let mut panicked = false;
    for cp in lo..=hi {
        let c = match char::from_u32(cp) {
            Some(c) => c,
            None => continue,
        };
        let mut variant = String::new();
        for (i, l) in letters.iter().enumerate() {
            variant.push(if i == pos { c } else { *l });
        }
        let input = if closer { format!("<{}>x</{}>", word, variant) } else { format!("<{}>x</{}>", variant, word) };
        match call(&*f.strip, f.rt, &input) {
            SObs::Ok(out) => {
                if out.is_empty() {
                    hits.push(format!("{:x}", cp));
                }
            }
            _ => panicked = true,
        }
    }
    let kind = format!("fold-{}{}:{}", word, if closer { "-close" } else { "" }, pos);
    let letter = letters[pos].to_string();
    if panicked {
        ctx.emit(format!("c16fold {} {} {:x} {:x} => PANIC PANIC", kind, xs(&letter), lo, hi));
    } else {
        ctx.emit(format!("c16fold {} {} {:x} {:x} => ok {}", kind, xs(&letter), lo, hi, if hits.is_empty() { "-".to_string() } else { hits.join(",") }));
    }
}

pub fn run(ctx: &mut Ctx) {
    let lang = filters::language(false);
    let rt = RuntimeBuilder::new().build();
    let f = Filters {
        rt: &rt,
        escape: build(&lang, "escape"),
        once: build(&lang, "escape_once"),
        strip: build(&lang, "strip_html"),
        enc: build(&lang, "url_encode"),
        dec: build(&lang, "url_decode"),
    };
    let thorough = ctx.tier_thorough;
    let mut rng = Rng::new(ctx.seed);

    // ---- corpus: the examples of the property text and of the unit tests ----
    for s in ["&amp", "&lt;;", "&#39", "<scr<script>ipt>", "1 < 2 & 3", "&lt;&gt;&amp;&#39;&quot;&xyz;", "Have you read 'James & the Giant Peach'?", "word¹ <br> word¹"] {
        esc_case(ctx, &f, "corpus", s);
        strip_case(ctx, &f, "corpus", s);
        url_case(ctx, &f, "corpus", s);
    }
    for s in ["foo bar", "foo+1@example.com", "foo%20bar", "foo%2B1%40example.com", "foo+bar", "%", "%2", "%FF", "%C3%A9", "%ED%A0%80", "%C0%AF", "%F4%90%80%80"] {
        url_case(ctx, &f, "corpus", s);
    }
    for s in ["<script type=\"text/javascript\">alert('Hi!';</script>", "<SCRIPT type=\"text/javascript\">alert('Hi!';</SCRIPT>", "<p>test</p>",
              "<p id='xxx'>test</p>", "<style type=\"text/css\">cool style</style>", "<p\nclass='loooong'>test</p>", "<!--\n\tcomment\n-->test", "",
              "<!-->", "<script>alert(1)", "a > b < c", "<\u{17f}cript>x</\u{17f}cript>", "<style></script></style>"] {
        strip_case(ctx, &f, "corpus", s);
    }
    // entities are text for strip_html: nothing may turn them into markup
    for s in ["&lt;script&gt;alert(1)&lt;/script&gt;", "&lt;b&gt;", "<p>&lt;i&gt;x&lt;/i&gt;</p>", "&amp;lt;x&amp;gt;", "&lt;img src=x onerror=alert(1)&gt;",
              "&#39;&quot;&amp;", "&lt;!-- c --&gt;", "a &lt; b &gt; c", "<p>&lt;p&gt;</p>"] {
        strip_case(ctx, &f, "corpus-entities", s);
    }

    // ---- escape / escape_once: the property's alphabet, exhaustively ----
    let esc_max = if thorough { 5 } else { 4 };
    for_all_strings(ESC_ALPHA, esc_max, |len, s| esc_case(ctx, &f, &format!("esc-exh{}", len), s));
    // token level (spells &gt; &quot; &#39; and their near-entities)
    let esc_tok_max = if thorough { 4 } else { 3 };
    for_all_strings(ESC_TOKENS, esc_tok_max, |len, s| esc_case(ctx, &f, &format!("esc-tok{}", len), s));
    // an existing entity between every p and t
    let keep_max = if thorough { 2 } else { 1 };
    let mut ctxs: Vec<String> = Vec::new();
    for_all_strings(ESC_ALPHA, keep_max, |_, s| ctxs.push(s.to_owned()));
    for p in &ctxs {
        for t in &ctxs {
            for e in ENTITIES {
                keep_case(ctx, &f, "keep-exh", p, e, t);
            }
        }
    }
    let n_rand = if thorough { 50_000 } else { 3_000 };
    for _ in 0..n_rand {
        let s = random_string(&mut rng, &[ESC_ALPHA, ESC_TOKENS, TAG_TOKENS], 40);
        esc_case(ctx, &f, "esc-rand", &s);
    }
    for _ in 0..n_rand / 3 {
        let p = random_string(&mut rng, &[ESC_ALPHA, ESC_TOKENS], 12);
        let t = random_string(&mut rng, &[ESC_ALPHA, ESC_TOKENS], 12);
        let e = *rng.pick(ENTITIES);
        keep_case(ctx, &f, "keep-rand", &p, e, &t);
    }

    // single characters beyond ASCII, alone and between specials: every scalar below U+1000, and every
    // scalar up to U+20000 whose code point ends in the byte of one of the five specials (`"` 22, `&` 26,
    // `'` 27, `<` 3C, `>` 3E) -- a non-ASCII character is never one of them
    {
        let upper = if thorough { 0x110000u32 } else { 0x20000 };
        for cp in 0x80..upper {
            let low = cp & 0xff;
            if cp < 0x1000 || matches!(low, 0x22 | 0x26 | 0x27 | 0x3c | 0x3e) {
                if let Some(c) = char::from_u32(cp) {
                    esc_case(ctx, &f, "esc-char", &c.to_string());
                    if cp % 7 == 0 {
                        esc_case(ctx, &f, "esc-char", &format!("<{}&{}lt;\"", c, c));
                    }
                }
            }
        }
    }

    // ---- url_encode / url_decode ----
    for_all_strings(URL_ALPHA, 4, |len, s| url_case(ctx, &f, &format!("url-exh{}", len), s));
    for_all_strings(URL_TOKENS, 3, |len, s| url_case(ctx, &f, &format!("url-tok{}", len), s));
    // every single scalar value (thorough) / every BMP boundary neighbourhood (quick)
    if thorough {
        for cp in 0..=0x10FFFFu32 {
            if let Some(c) = char::from_u32(cp) {
                if cp < 0x3000 || cp % 61 == 0 || cp >= 0x10FF00 {
                    url_case(ctx, &f, "url-char", &c.to_string());
                }
            }
        }
    } else {
        for cp in (0..0x100u32).chain(0x7F0..0x810).chain(0xD7F0..0xE010).chain(0xFFF0..0x10010).chain(0x10FFF0..0x110000) {
            if let Some(c) = char::from_u32(cp) {
                url_case(ctx, &f, "url-char", &c.to_string());
            }
        }
    }
    for _ in 0..n_rand {
        let s = random_string(&mut rng, &[URL_ALPHA, URL_TOKENS, ESC_ALPHA], 30);
        url_case(ctx, &f, "url-rand", &s);
    }

    // ---- UTF-8 validity through url_decode: every byte string of length <= 3 (thorough) ----
    utf_one(ctx, &f, "utf-exh0", &[]);
    utf_mask(ctx, &f, "utf-exh1", &[]);
    for b0 in 0..=255u8 {
        utf_mask(ctx, &f, "utf-exh2", &[b0]);
    }
    let leads: Vec<u8> = if thorough { (0..=255u8).collect() } else { vec![0x00, 0x7F, 0x80, 0xBF, 0xC0, 0xC1, 0xC2, 0xDF, 0xE0, 0xE1, 0xEC, 0xED, 0xEE, 0xEF, 0xF0, 0xF1, 0xF3, 0xF4, 0xF5, 0xFF] };
    for &b0 in &leads {
        for b1 in 0..=255u8 {
            utf_mask(ctx, &f, "utf-exh3", &[b0, b1]);
        }
    }
    // four bytes: every lead F0..F5 x boundary second bytes x boundary third bytes x all fourth bytes
    for b0 in [0xF0u8, 0xF1, 0xF3, 0xF4, 0xF5, 0xEF, 0xE0] {
        for b1 in [0x7Fu8, 0x80, 0x8F, 0x90, 0x9F, 0xA0, 0xBF, 0xC0] {
            for b2 in [0x7Fu8, 0x80, 0xBF, 0xC0] {
                utf_mask(ctx, &f, "utf-4", &[b0, b1, b2]);
            }
        }
    }
    let n_bytes = if thorough { 100_000 } else { 5_000 };
    for _ in 0..n_bytes {
        let n = 1 + rng.below(12);
        let mut bs = Vec::new();
        while bs.len() < n {
            match rng.below(4) {
                0 => bs.push(rng.below(256) as u8),
                1 => bs.push(*rng.pick(&[0x7Fu8, 0x80, 0xBF, 0xC0, 0xC2, 0xDF, 0xE0, 0xED, 0xEF, 0xF0, 0xF4, 0xF5, 0xA0, 0x9F, 0x90, 0x8F])),
                _ => {
                    // a well-formed character
                    let s = random_string(&mut rng, &[URL_ALPHA], 1);
                    bs.extend_from_slice(s.as_bytes());
                }
            }
        }
        utf_one(ctx, &f, "utf-rand", &bs);
    }

    // ---- strip_html ----
    let tag_max = if thorough { 6 } else { 5 };
    for_all_strings(TAG_ALPHA, tag_max, |len, s| strip_case(ctx, &f, &format!("strip-exh{}", len), s));
    let tag_tok_max = if thorough { 4 } else { 3 };
    for_all_strings(TAG_TOKENS, tag_tok_max, |len, s| strip_case(ctx, &f, &format!("strip-tok{}", len), s));
    for _ in 0..n_rand {
        let s = random_string(&mut rng, &[TAG_ALPHA, TAG_TOKENS, ESC_ALPHA, ESC_TOKENS], 40);
        strip_case(ctx, &f, "strip-rand", &s);
    }
    // case folding of the two word regexes, every scalar value at every letter position
    let planes: Vec<(u32, u32)> = if thorough { (0..17u32).map(|p| (p * 0x10000, p * 0x10000 + 0xFFFF)).collect() } else { vec![(0, 0x2FFF)] };
    for word in ["script", "style"] {
        for pos in 0..word.len() {
            for closer in [false, true] {
                for &(lo, hi) in &planes {
                    fold_scan(ctx, &f, word, pos, closer, lo, hi);
                }
            }
        }
    }

    // ---- non-string inputs and arity through the generic filter op ----
    let mut arr = Vec::new();
    arr.push(Value::scalar("<a&"));
    arr.push(Value::scalar(1i64));
    arr.push(Value::Nil);
    let mut obj = liquid_core::model::Object::new();
    obj.insert("k<".into(), Value::scalar("v&amp;"));
    let inputs = vec![
        Value::Nil,
        Value::scalar(5i64),
        Value::scalar(-3i64),
        Value::scalar(true),
        Value::scalar(1.5f64),
        Value::scalar(""),
        Value::scalar("a<b>&amp;+%41"),
        Value::Array(arr),
        Value::Array(Vec::new()),
        Value::Object(obj),
    ];
    for name in ["escape", "escape_once", "strip_html", "url_encode", "url_decode"] {
        for input in &inputs {
            for args in [vec![], vec![Value::scalar(1i64)], vec![Value::scalar("x"), Value::Nil]] {
                let obs = filters::apply(&lang, name, input, &args);
                ctx.emit(filter_case("c16f", &format!("value-{}", name), name, input, &args, &obs));
            }
        }
    }
}
