//! C01: parsing is total.  Three streams:
//!  * `bp`: every sequence up to a bounded length over an abstract element alphabet (raw, good/bad
//!    output tag, invalid token, every stdlib tag and block opener/closer/inner tag with accepted and
//!    rejected arguments, with and without arguments, an unknown tag), realised as text; the parse
//!    status is compared with the abstract block-protocol model;
//!  * `ptext` soups: every sequence up to a bounded length over a lexical alphabet of ~70 tokens
//!    (delimiters with and without trim markers, keywords, operators, literals incl. 20-digit integers,
//!    both quote styles, unterminated quotes, identifiers, non-ASCII, tabs, stray braces), random
//!    longer soups, nesting up to depth 32;
//!  * `ptext` mutations: delete / duplicate / transpose of single characters of well-formed generated
//!    templates;
//! under three parser configurations (stdlib; stdlib + jekyll/shopify/extra filters; empty).
use crate::ast::src_tmpl;
use crate::filters::language;
use crate::gen::Gen;
use crate::proto::xs;
use crate::rng::Rng;
use crate::run::panic_msg;
use crate::Ctx;
use liquid_core::parser::Language;
use std::panic::{catch_unwind, AssertUnwindSafe};

fn status(lang: &Language, text: &str) -> String {
    let r = catch_unwind(AssertUnwindSafe(|| liquid_core::parser::parse(text, lang).map(|v| v.len())));
    match r {
        Ok(Ok(_)) => "ok -".into(),
        Ok(Err(e)) => format!("perr {}", if e.to_string().trim().is_empty() { "nomsg" } else { "msg" }),
        Err(e) => {
            let _ = panic_msg(e);
            "PANIC -".into()
        }
    }
}

/// abstract element: (protocol token, realisation)
fn bp_alphabet() -> Vec<(String, &'static str)> {
    let t = |name: &str, a: u8, n: u8| format!("t x{} {} {}", crate::proto::hex(name), a, n);
    vec![
        ("r".into(), "txt"),
        ("e1".into(), "{{ 1 }}"),
        ("e0".into(), "{{ 1 | nosuchfilter }}"),
        ("i".into(), "{{ ! }}"),
        (t("assign", 1, 0), "{% assign v = 1 %}"),
        (t("assign", 0, 1), "{% assign %}"),
        (t("break", 1, 1), "{% break %}"),
        (t("increment", 1, 0), "{% increment v %}"),
        (t("cycle", 0, 1), "{% cycle %}"),
        (t("include", 0, 1), "{% include %}"),
        (t("bogus", 1, 1), "{% bogus %}"),
        (t("if", 1, 0), "{% if true %}"),
        (t("if", 0, 1), "{% if %}"),
        (t("elsif", 1, 0), "{% elsif true %}"),
        (t("elsif", 0, 1), "{% elsif %}"),
        (t("else", 1, 1), "{% else %}"),
        (t("else", 0, 0), "{% else x %}"),
        (t("endif", 1, 1), "{% endif %}"),
        (t("endif", 0, 0), "{% endif x %}"),
        (t("unless", 1, 0), "{% unless true %}"),
        (t("endunless", 1, 1), "{% endunless %}"),
        (t("for", 1, 0), "{% for i in (1..2) %}"),
        (t("for", 0, 1), "{% for %}"),
        (t("endfor", 1, 1), "{% endfor %}"),
        (t("tablerow", 1, 0), "{% tablerow i in (1..2) %}"),
        (t("endtablerow", 1, 1), "{% endtablerow %}"),
        (t("case", 1, 0), "{% case 1 %}"),
        (t("case", 0, 1), "{% case %}"),
        (t("when", 1, 0), "{% when 1 %}"),
        (t("when", 0, 1), "{% when %}"),
        (t("endcase", 1, 1), "{% endcase %}"),
        (t("capture", 1, 0), "{% capture v %}"),
        (t("capture", 0, 1), "{% capture %}"),
        (t("endcapture", 1, 1), "{% endcapture %}"),
        (t("ifchanged", 1, 1), "{% ifchanged %}"),
        (t("endifchanged", 1, 1), "{% endifchanged %}"),
        (t("comment", 1, 1), "{% comment %}"),
        (t("comment", 0, 0), "{% comment x %}"),
        (t("endcomment", 1, 1), "{% endcomment %}"),
        (t("endcomment", 0, 0), "{% endcomment x %}"),
        (t("raw", 1, 1), "{% raw %}"),
        (t("raw", 0, 0), "{% raw x %}"),
        (t("endraw", 1, 1), "{% endraw %}"),
        (t("endraw", 0, 0), "{% endraw x %}"),
    ]
}

fn lexical_alphabet() -> Vec<&'static str> {
    vec![
        "{{", "}}", "{%", "%}", "{{-", "-}}", "{%-", "-%}", "{", "}", "%", "-",
        "if", "endif", "else", "elsif", "unless", "endunless", "for", "endfor", "in", "tablerow", "endtablerow",
        "case", "when", "endcase", "capture", "endcapture", "comment", "endcomment", "raw", "endraw",
        "ifchanged", "endifchanged", "assign", "include", "render", "cycle", "increment", "decrement", "break", "continue",
        "==", "!=", "<>", "<", ">", "<=", ">=", "contains", "and", "or", "=", "|", ":", ",", ".", "..", "(", ")", "[", "]",
        "1", "-1", "+1", "1.5", "12345678901234567890", "'s'", "\"d\"", "'", "\"", "true", "nil", "empty", "x", "a.b", "é", "\t", " ", "\n",
        // more non-ASCII text (3- and 4-byte scalars, a combining mark) and identifiers that differ from keywords by case only
        "日本", "€", "😀", "e\u{301}", "True", "FALSE", "Nil", "X_1",
        // a backslash is an ordinary character of a string literal (there are no escapes) and of text
        "\\", "'a\\'",
    ]
}

fn emit_text(ctx: &mut Ctx, langs: &[(&str, Language)], kind: &str, text: &str) {
    for (cfg, lang) in langs {
        ctx.emit(format!("ptext {} {} {} => {}", kind, cfg, xs(text), status(lang, text)));
    }
}

pub fn run(ctx: &mut Ctx) {
    let langs: Vec<(&str, Language)> = vec![("std", language(false)), ("all", language(true)), ("empty", Language::empty())];
    let std = &langs[0].1;
    // ---- abstract element sequences (block protocol) ----
    let alpha = bp_alphabet();
    let maxlen = if ctx.tier_thorough { 3 } else { 2 };
    let mut idx: Vec<usize> = Vec::new();
    fn rec(ctx: &mut Ctx, std: &Language, alpha: &[(String, &'static str)], idx: &mut Vec<usize>, maxlen: usize) {
        if !idx.is_empty() {
            let toks: Vec<&str> = idx.iter().map(|i| alpha[*i].0.as_str()).collect();
            let text: String = idx.iter().map(|i| alpha[*i].1).collect::<Vec<_>>().join("");
            ctx.emit(format!("bp exh{} {} {} => {} #{}", idx.len(), idx.len(), toks.join(" "), status(std, &text), xs(&text)));
        }
        if idx.len() == maxlen {
            return;
        }
        for i in 0..alpha.len() {
            idx.push(i);
            rec(ctx, std, alpha, idx, maxlen);
            idx.pop();
        }
    }
    rec(ctx, std, &alpha, &mut idx, maxlen);
    let mut rng = Rng::new(ctx.seed ^ 0xC01);
    // random longer abstract sequences: a well-nested skeleton (depth <= 3), then 0..2 element-level
    // mutations (delete / duplicate / swap / replace), so that about half of them still parse
    let find = |tok_name: &str, a: u8, n: u8| -> usize {
        let key = format!("t x{} {} {}", crate::proto::hex(tok_name), a, n);
        alpha.iter().position(|(k, _)| *k == key).unwrap()
    };
    let atoms: Vec<usize> = vec![0, 1, find("assign", 1, 0), find("break", 1, 1), find("increment", 1, 0)];
    fn skeleton(rng: &mut Rng, depth: usize, atoms: &[usize], find: &dyn Fn(&str, u8, u8) -> usize, out: &mut Vec<usize>) {
        let n = rng.below(4);
        for _ in 0..n {
            if depth == 0 || rng.chance(1, 2) {
                out.push(*rng.pick(atoms));
                continue;
            }
            match rng.below(8) {
                0 => {
                    out.push(find("if", 1, 0));
                    skeleton(rng, depth - 1, atoms, find, out);
                    if rng.chance(1, 2) {
                        out.push(find("elsif", 1, 0));
                        skeleton(rng, depth - 1, atoms, find, out);
                    }
                    if rng.chance(1, 2) {
                        out.push(find("else", 1, 1));
                        skeleton(rng, depth - 1, atoms, find, out);
                    }
                    out.push(find("endif", 1, 1));
                }
                1 => {
                    out.push(find("for", 1, 0));
                    skeleton(rng, depth - 1, atoms, find, out);
                    if rng.chance(1, 3) {
                        out.push(find("else", 1, 1));
                        skeleton(rng, depth - 1, atoms, find, out);
                    }
                    out.push(find("endfor", 1, 1));
                }
                2 => {
                    out.push(find("case", 1, 0));
                    out.push(find("when", 1, 0));
                    skeleton(rng, depth - 1, atoms, find, out);
                    if rng.chance(1, 2) {
                        out.push(find("else", 1, 1));
                        skeleton(rng, depth - 1, atoms, find, out);
                    }
                    out.push(find("endcase", 1, 1));
                }
                3 => {
                    out.push(find("capture", 1, 0));
                    skeleton(rng, depth - 1, atoms, find, out);
                    out.push(find("endcapture", 1, 1));
                }
                4 => {
                    out.push(find("comment", 1, 1));
                    skeleton(rng, depth - 1, atoms, find, out);
                    if rng.chance(1, 3) {
                        out.push(2); // a bad output tag inside a comment is skipped
                    }
                    out.push(find("endcomment", 1, 1));
                }
                5 => {
                    out.push(find("raw", 1, 1));
                    skeleton(rng, depth - 1, atoms, find, out);
                    if rng.chance(1, 3) {
                        out.push(3); // an invalid token inside raw is text
                    }
                    out.push(find("endraw", 1, 1));
                }
                6 => {
                    out.push(find("unless", 1, 0));
                    skeleton(rng, depth - 1, atoms, find, out);
                    out.push(find("endunless", 1, 1));
                }
                _ => {
                    out.push(find("tablerow", 1, 0));
                    skeleton(rng, depth - 1, atoms, find, out);
                    out.push(find("endtablerow", 1, 1));
                }
            }
        }
    }
    let n = if ctx.tier_thorough { 400_000 } else { 30_000 };
    for _ in 0..n {
        let mut ix: Vec<usize> = Vec::new();
        skeleton(&mut rng, 3, &atoms, &find, &mut ix);
        let muts = rng.below(3);
        for _ in 0..muts {
            if ix.is_empty() {
                ix.push(rng.below(alpha.len()));
                continue;
            }
            let p = rng.below(ix.len());
            match rng.below(4) {
                0 => {
                    ix.remove(p);
                }
                1 => {
                    let v = ix[p];
                    ix.insert(p, v);
                }
                2 => {
                    let q = rng.below(ix.len());
                    ix.swap(p, q);
                }
                _ => ix[p] = rng.below(alpha.len()),
            }
        }
        if ix.is_empty() {
            continue;
        }
        let toks: Vec<&str> = ix.iter().map(|i| alpha[*i].0.as_str()).collect();
        let text: String = ix.iter().map(|i| alpha[*i].1).collect::<Vec<_>>().join("");
        ctx.emit(format!("bp rand{} {} {} => {} #{}", muts, ix.len(), toks.join(" "), status(std, &text), xs(&text)));
    }
    // ---- lexical soups ----
    let lex = lexical_alphabet();
    let soup_len = if ctx.tier_thorough { 3 } else { 2 };
    let mut ix: Vec<usize> = Vec::new();
    fn rec2(ctx: &mut Ctx, langs: &[(&str, Language)], lex: &[&'static str], ix: &mut Vec<usize>, maxlen: usize) {
        if !ix.is_empty() {
            for sep in ["", " "] {
                let text: String = ix.iter().map(|i| lex[*i]).collect::<Vec<_>>().join(sep);
                emit_text(ctx, langs, &format!("soup{}", ix.len()), &text);
            }
        }
        if ix.len() == maxlen {
            return;
        }
        for i in 0..lex.len() {
            ix.push(i);
            rec2(ctx, langs, lex, ix, maxlen);
            ix.pop();
        }
    }
    rec2(ctx, &langs, &lex, &mut ix, soup_len);
    let n = if ctx.tier_thorough { 300_000 } else { 7_000 };
    for _ in 0..n {
        let len = 3 + rng.below(10);
        let text: String = (0..len).map(|_| *rng.pick(&lex)).collect::<Vec<_>>().join(if rng.chance(1, 2) { " " } else { "" });
        emit_text(ctx, &langs, "soup-rand", &text);
    }
    // nesting depth up to 32 (well nested, then with the innermost closers removed / swapped)
    for depth in [1usize, 2, 8, 16, 32] {
        let openers = ["{% if true %}", "{% for i in (1..1) %}", "{% case 1 %}{% when 1 %}", "{% capture v %}", "{% unless false %}", "{% comment %}"];
        let closers = ["{% endif %}", "{% endfor %}", "{% endcase %}", "{% endcapture %}", "{% endunless %}", "{% endcomment %}"];
        let mut open = String::new();
        let mut close = Vec::new();
        for d in 0..depth {
            open.push_str(openers[d % openers.len()]);
            close.push(closers[d % closers.len()]);
        }
        close.reverse();
        emit_text(ctx, &langs, "nest", &format!("{}x{}", open, close.join("")));
        emit_text(ctx, &langs, "nest-unclosed", &format!("{}x{}", open, close[1..].join("")));
        let mut sw = close.clone();
        if sw.len() > 1 {
            sw.swap(0, 1);
        }
        emit_text(ctx, &langs, "nest-swapped", &format!("{}x{}", open, sw.join("")));
    }
    // ---- every value position x every literal / identifier form of the alphabet ----
    let slots = [
        "{{ X }}", "{{- X -}}", "{% if X %}t{% endif %}", "{% if 1 == X %}t{% endif %}", "{% if X contains X %}t{% endif %}", "{% unless X %}t{% endunless %}",
        "{% assign v = X %}", "{{ 1 | plus: X }}", "{{ X | default: X }}", "{% for i in (1..X) %}t{% endfor %}", "{% for i in (X..2) %}t{% endfor %}",
        "{% for i in a limit: X %}t{% endfor %}", "{% for i in a offset: X %}t{% endfor %}", "{{ a[X] }}", "{{ a.X }}", "{% case X %}{% when X %}t{% endcase %}",
        "{% case 1 %}{% when X, X %}t{% when 2 or X %}u{% endcase %}", "{% cycle X, X %}", "{% cycle X: 1, 2 %}", "{% include X %}", "{% include 'p' X: X %}",
        "{% render X %}", "{% render 'p' with X as y %}", "{% render 'p' for X as y %}", "{% render 'p', k: X %}", "{% tablerow i in a cols: X %}t{% endtablerow %}",
        "{% capture X %}t{% endcapture %}", "{% increment X %}", "{% ifchanged %}{{ X }}{% endifchanged %}", "{% raw %}{{ X }}{% endraw %}{{ X }}",
    ];
    let values = [
        "1", "-1", "+1", "1.5", "-0.0", "1.", ".5", "12345678901234567890", "-9223372036854775808", "9223372036854775807", "9223372036854775808", "1e5",
        "'s'", "\"d\"", "'", "\"", "''", "'é'", "'\u{65e5}\u{672c}'", "true", "false", "nil", "null", "empty", "blank", "True", "FALSE", "tRuE", "Nil", "NULL", "Empty",
        "'\\'", "\"\\\"", "'C:\\t\\'", "'\\n'", "'a\\\\'", "\"\\'\"", "\\",
        "BLANK", "x", "X_1", "a.b", "a[0]", "a['k']", "é", "\u{65e5}\u{672c}", "\u{1f600}", "(1..2)", "-", "", "forloop", "forloop.index", "and", "or", "contains", "in",
    ];
    for slot in slots {
        for v in values {
            emit_text(ctx, &langs, "slot", &slot.replace("X", v));
        }
        // long literals and names, at every byte alignment of their multi-byte characters
        for pad in 0..4usize {
            let long_lit = format!("'{}{}'", "a".repeat(pad), "\u{e9}".repeat(40));
            let long_cjk = format!("\"{}{}\"", "a".repeat(pad), "\u{65e5}".repeat(30));
            let long_id = format!("{}{}", "v".repeat(60 + pad), "_1");
            for v in [long_lit, long_cjk, long_id] {
                emit_text(ctx, &langs, "slot-long", &slot.replace("X", &v));
            }
        }
    }
    // ---- character-level mutations of well-formed templates ----
    let mut g = Gen::new(ctx.seed ^ 0x1C01);
    let n = if ctx.tier_thorough { 150_000 } else { 5_000 };
    for _ in 0..n {
        let t = g.body(3, 4);
        let text = src_tmpl(&t);
        let chars: Vec<char> = text.chars().collect();
        if chars.is_empty() {
            continue;
        }
        let pos = rng.below(chars.len());
        let mut m = chars.clone();
        let kind = match rng.below(4) {
            0 => {
                m.remove(pos);
                "mut-delete"
            }
            1 => {
                m.insert(pos, chars[pos]);
                "mut-duplicate"
            }
            2 => {
                if pos + 1 < m.len() {
                    m.swap(pos, pos + 1);
                }
                "mut-transpose"
            }
            _ => "mut-none",
        };
        let text: String = m.into_iter().collect();
        emit_text(ctx, &langs, kind, &text);
    }
}
