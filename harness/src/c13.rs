//! C13: string filters compute their documented function on every string.
//! Quantifier of the property: exhaustively all strings up to length 4 (arguments up to length 2)
//! over the alphabet {a, B, space, newline, tab, ',', '<', e-acute, a combining mark, an emoji};
//! every integer argument in [-6, 8]; random strings up to length 200 from the full generator;
//! chains of 1..4 filters; compared with the reference implementation / laws (Spec/C13.lean) and
//! with the Lean model (Model/StrFilters.lean).
//!
//! Line kinds (histogram bucket = text before the first ':'):
//!   corpus            the witnesses of D9, D13, D14, D15
//!   exh-<filter>      exhaustive small scope for one filter
//!   arity             every filter with 0..3 arguments
//!   intarg            integer parameters fed with non-integers
//!   nonstring         non-string inputs (numbers, booleans, nil, arrays)
//!   rand-<filter>     random strings ≤ 200 from the full generator
//!   law-strip, law-splitjoin   two observations the property says are equal
//!   chain             `{{ x | f1 | … | fn }}` through the real parser vs. step-by-step application
use crate::ast::*;
use crate::filters::{apply, filter_case, language, FObs};
use crate::proto::xs;
use crate::rng::Rng;
use crate::run::*;
use crate::Ctx;
use liquid_core::model::{Object, Value, ValueView};
use liquid_core::parser::Language;
use unicode_segmentation::UnicodeSegmentation;

pub const ALPHABET: [char; 10] = ['a', 'B', ' ', '\n', '\t', ',', '<', 'é', '\u{301}', '😀'];

/// Characters of the "full generator": every class the filters could treat specially.
/// (Sigma — U+03A3, U+03C3, U+03C2 — is left out: the context-sensitive final-sigma rule of
/// `str::to_lowercase` is not modelled, and upcasing σ/ς produces Σ.)
const POOL: &[char] = &[
    'a', 'b', 'z', 'A', 'B', 'Z', '0', '9', ' ', ' ', ' ', '\n', '\n', '\r', '\t', ',', '<', '>', '.', '-', '/', '\'',
    'é', 'É', 'ß', 'ǆ', 'İ', 'ı', 'ﬁ', 'ŉ', 'λ', 'Λ', 'я', 'Я', '\u{301}', '\u{308}', '\u{332}', '\u{200d}', '\u{fe0f}',
    '😀', '👩', '💻', '🇷', '🇺', '🇸', '\u{a0}', '\u{2003}', '\u{3000}', '\u{85}', '\u{200b}', '\u{feff}', '\u{1680}',
    '\u{2028}', 'ᄀ', 'ᅡ', 'ᆨ', '한', 'あ', '\u{0}', '\u{7f}', '\u{10ffff}', '\u{e01}', '\u{e33}', '\u{600}',
];

fn sv(s: &str) -> Value {
    Value::scalar(s.to_owned())
}
fn iv(i: i64) -> Value {
    Value::scalar(i)
}

/// all strings over `alpha` with length ≤ n, shortest first
fn strings(alpha: &[char], n: usize) -> Vec<String> {
    let mut out = vec![String::new()];
    let mut prev = vec![String::new()];
    for _ in 0..n {
        let mut next = Vec::with_capacity(prev.len() * alpha.len());
        for p in &prev {
            for c in alpha {
                let mut s = p.clone();
                s.push(*c);
                next.push(s);
            }
        }
        out.extend(next.iter().cloned());
        prev = next;
    }
    out
}

/// `<nseg> (x<str> <k> <len>*)* <ncase> (x<c> x<up> x<lo>)*`
fn uni_table(seg_of: &[&str], case_of: &[&str]) -> String {
    let mut segs: Vec<&str> = Vec::new();
    for s in seg_of {
        if !segs.contains(s) {
            segs.push(s);
        }
    }
    let mut o = vec![segs.len().to_string()];
    for s in segs {
        o.push(xs(s));
        let lens: Vec<usize> = s.graphemes(true).map(|g| g.chars().count()).collect();
        o.push(lens.len().to_string());
        for l in lens {
            o.push(l.to_string());
        }
    }
    let mut cs: Vec<char> = Vec::new();
    for s in case_of {
        for c in s.chars() {
            if !c.is_ascii() && !cs.contains(&c) {
                cs.push(c);
            }
        }
    }
    o.push(cs.len().to_string());
    for c in cs {
        o.push(xs(&c.to_string()));
        o.push(xs(&c.to_uppercase().collect::<String>()));
        o.push(xs(&c.to_lowercase().collect::<String>()));
    }
    o.join(" ")
}

fn kstr(v: &Value) -> String {
    v.to_kstr().to_string()
}

fn obs_str(o: &FObs) -> Option<String> {
    match o {
        FObs::Ok(v) => Some(kstr(v)),
        _ => None,
    }
}

/// one `c13` line
fn one(ctx: &mut Ctx, lang: &Language, kind: &str, name: &str, input: &Value, args: &[Value]) -> FObs {
    let obs = apply(lang, name, input, args);
    let mut line = filter_case("c13", kind, name, input, args, &obs);
    let inp = kstr(input);
    match name {
        "truncate" => {
            let e = if args.len() >= 2 { kstr(&args[1]) } else { "...".to_string() };
            let out = obs_str(&obs).unwrap_or_default();
            line.push_str(" U ");
            line.push_str(&uni_table(&[&inp, &e, &out], &[]));
        }
        "upcase" | "downcase" | "capitalize" => {
            if !inp.is_ascii() {
                line.push_str(" U ");
                line.push_str(&uni_table(&[], &[&inp]));
            }
        }
        _ => {}
    }
    ctx.emit(line);
    obs
}

fn law(ctx: &mut Ctx, kind: &str, a: &FObs, b: &FObs) {
    ctx.emit(format!("c13law {} {} {}", kind, a.tokens(), b.tokens()));
}

pub const NOARG: &[&str] = &[
    "upcase", "downcase", "capitalize", "strip", "lstrip", "rstrip", "strip_newlines", "newline_to_br", "size", "first",
    "last",
];
pub const STR1: &[&str] = &["append", "prepend", "remove", "remove_first", "split", "default"];
pub const ALL: &[&str] = &[
    "append", "prepend", "upcase", "downcase", "capitalize", "strip", "lstrip", "rstrip", "strip_newlines",
    "newline_to_br", "replace", "replace_first", "remove", "remove_first", "split", "join", "truncate", "truncatewords",
    "slice", "size", "first", "last", "default",
];

fn rand_string(r: &mut Rng, max: usize) -> String {
    let n = match r.below(10) {
        0 => 0,
        1..=4 => r.below(8),
        5..=7 => r.below(40),
        _ => r.below(max + 1),
    };
    let ascii_only = r.chance(1, 5);
    let mut s = String::new();
    for _ in 0..n {
        let c = if ascii_only { POOL[r.below(22)] } else { *r.pick(POOL) };
        s.push(c);
    }
    s
}

/// a short argument: often a substring of the input so that matches occur
fn rand_arg(r: &mut Rng, input: &str) -> String {
    let cs: Vec<char> = input.chars().collect();
    match r.below(6) {
        0 => String::new(),
        1 | 2 if !cs.is_empty() => {
            let a = r.below(cs.len());
            let l = 1 + r.below(3.min(cs.len() - a));
            cs[a..a + l].iter().collect()
        }
        3 => r.pick(POOL).to_string(),
        _ => {
            let n = 1 + r.below(3);
            (0..n).map(|_| *r.pick(POOL)).collect()
        }
    }
}

fn rand_int(r: &mut Rng, len: usize) -> i64 {
    match r.below(12) {
        0..=6 => r.range(-6, 8),
        7 | 8 => r.range(-(len as i64) - 2, len as i64 + 2),
        9 => *r.pick(&[i64::MAX, i64::MIN, i64::MAX - 1, i64::MIN + 1, 1 << 32, -(1 << 32), 1 << 62]),
        _ => r.range(-300, 300),
    }
}

fn non_string_inputs() -> Vec<Value> {
    vec![
        Value::Nil,
        iv(0),
        iv(-12),
        iv(1234567),
        Value::scalar(true),
        Value::scalar(false),
        Value::scalar(10000000f64),
        Value::scalar(-2.5f64),
        Value::Array(vec![]),
        Value::Array(vec![sv("a")]),
        Value::Array(vec![sv("a b"), sv(""), sv("é\u{301}")]),
        Value::Array(vec![iv(1), Value::Nil, sv("x"), Value::scalar(true)]),
        Value::Array(vec![Value::Array(vec![sv("p"), sv("q")]), sv("r")]),
        Value::Array((0..7).map(|i| iv(i)).collect()),
        Value::State(liquid_core::model::State::Empty),
        Value::State(liquid_core::model::State::Blank),
    ]
}

/// random chain step
fn rand_call(r: &mut Rng, cur: &str, is_array: bool) -> (String, Vec<Value>) {
    let mut name = *r.pick(ALL);
    // `join` of a non-array is an error that ends the chain: keep it, but rarely
    while name == "join" && !is_array && !r.chance(1, 6) {
        name = *r.pick(ALL);
    }
    let args: Vec<Value> = match name {
        "append" | "prepend" | "remove" | "remove_first" | "split" | "default" => vec![sv(&chain_arg(r, cur))],
        "replace" | "replace_first" => {
            if r.chance(1, 4) {
                vec![sv(&chain_arg(r, cur))]
            } else {
                vec![sv(&chain_arg(r, cur)), sv(&chain_arg(r, cur))]
            }
        }
        "join" => {
            if r.chance(1, 3) {
                vec![]
            } else {
                vec![sv(&chain_arg(r, cur))]
            }
        }
        "truncate" | "truncatewords" => match r.below(3) {
            0 => vec![],
            1 => vec![iv(r.range(-6, 8))],
            _ => vec![iv(r.range(-6, 8)), sv(&chain_arg(r, cur))],
        },
        "slice" => {
            if r.chance(1, 2) {
                vec![iv(r.range(-6, 8))]
            } else {
                vec![iv(r.range(-6, 8)), iv(r.range(-1, 8))]
            }
        }
        _ => vec![],
    };
    (name.to_string(), args)
}

/// chain arguments are printed as literals: no quote characters
fn chain_arg(r: &mut Rng, cur: &str) -> String {
    let s = if r.chance(2, 3) {
        let n = r.below(3);
        (0..n).map(|_| *r.pick(&ALPHABET)).collect::<String>()
    } else {
        rand_arg(r, cur)
    };
    s.chars().filter(|c| *c != '"' && *c != '\'').collect()
}

fn chain_case(ctx: &mut Ctx, lang: &Language, parser: &liquid::Parser, r: &mut Rng, input: Value, calls: Vec<(String, Vec<Value>)>) {
    // step-by-step through the plugin API
    let mut steps: Vec<FObs> = Vec::new();
    let mut segs: Vec<String> = vec![kstr(&input)];
    let mut cur = input.clone();
    for (name, args) in &calls {
        let o = apply(lang, name, &cur, args);
        for a in args {
            segs.push(kstr(a));
        }
        segs.push("...".into());
        match &o {
            FObs::Ok(v) => {
                segs.push(kstr(v));
                cur = v.clone();
                steps.push(o);
            }
            _ => {
                steps.push(o);
                break;
            }
        }
    }
    // the template: arguments as literals or, at random, through variables
    let mut data = Object::new();
    data.insert("x".into(), input.clone());
    let mut fcalls = Vec::new();
    let mut k = 0;
    for (name, args) in &calls {
        let mut es = Vec::new();
        for a in args {
            if r.chance(1, 3) {
                let v = format!("a{}", k);
                k += 1;
                data.insert(v.clone().into(), a.clone());
                es.push(var(&v));
            } else {
                es.push(Expr::Lit(a.clone()));
            }
        }
        fcalls.push(FCall { name: name.clone(), args: es });
    }
    let t = vec![Node::Output(var("x"), fcalls)];
    let obs = render_text(parser, &src_tmpl(&t), &data);
    let seg_refs: Vec<&str> = segs.iter().map(|s| s.as_str()).collect();
    let needs_seg = calls.iter().any(|(n, _)| n == "truncate");
    let uni = uni_table(if needs_seg { &seg_refs } else { &[] }, &seg_refs);
    let mut extra = format!("chain:{} {} {}", calls.len(), uni, steps.len());
    for s in &steps {
        extra.push(' ');
        extra.push_str(&s.tokens());
    }
    extra.push_str(" R");
    // render_case prints `<op> <extra> <tmpl> <data> <partials> <obs> #…`
    ctx.emit(render_case("c13chain", &extra, &t, &data, &[], &obs));
}

pub fn run(ctx: &mut Ctx) {
    let lang = language(false);
    let parser = build_parser(&[], Policy::Eager);
    let thorough = ctx.tier_thorough;
    let mut rng = Rng::new(ctx.seed ^ 0xC13);

    // ---- corpus: the defects found with this property ----
    one(ctx, &lang, "corpus:D13", "truncate", &sv("ééé"), &[iv(4)]);
    one(ctx, &lang, "corpus:D14", "size", &sv("ééé"), &[]);
    one(ctx, &lang, "corpus:D15", "slice", &sv("ééé"), &[iv(-1)]);
    one(ctx, &lang, "corpus:D9", "slice", &sv("abc"), &[iv(1), iv(i64::MAX)]);
    one(ctx, &lang, "corpus:D9", "slice", &sv("abc"), &[iv(i64::MIN), iv(i64::MAX)]);
    // line breaks are CR and LF, alone or together
    for t in ["line one\rline two\rline three", "\r", "ab\r", "\ra\r\rb", "é\r日\r😀", "a\r\nb\rc\nd", "\r\r\r"] {
        one(ctx, &lang, "corpus:bare-cr", "strip_newlines", &sv(t), &[]);
        one(ctx, &lang, "corpus:bare-cr", "newline_to_br", &sv(t), &[]);
        one(ctx, &lang, "corpus:bare-cr", "strip", &sv(t), &[]);
        one(ctx, &lang, "corpus:bare-cr", "size", &sv(t), &[]);
    }
    one(ctx, &lang, "corpus:trunc-flag", "truncate", &sv("Here is a RUST: 🇷🇺🇸🇹."), &[iv(20)]);

    // ---- the context-sensitive lower-casing of capital sigma (not in the Lean model: judged here by
    // a reference written from the Unicode rule `Final_Sigma`: Σ becomes ς when it follows a cased
    // letter (case-ignorable characters in between skipped) and is not followed by one, σ otherwise) ----
    {
        const SA: [char; 10] = ['Σ', 'σ', 'ς', 'Α', 'a', ' ', '.', '\u{301}', '-', '1'];
        let cased = |c: char| matches!(c, 'Σ' | 'σ' | 'ς' | 'Α' | 'a');
        let ignorable = |c: char| matches!(c, '.' | '\u{301}');
        let then_cased = |it: &mut dyn Iterator<Item = char>| -> bool {
            for c in it {
                if ignorable(c) {
                    continue;
                }
                return cased(c);
            }
            false
        };
        let reference = |s: &[char]| -> String {
            let mut o = String::new();
            for (i, c) in s.iter().enumerate() {
                match c {
                    'Σ' => {
                        let before = then_cased(&mut s[..i].iter().rev().copied());
                        let after = then_cased(&mut s[i + 1..].iter().copied());
                        o.push(if before && !after { 'ς' } else { 'σ' });
                    }
                    'Α' => o.push('α'),
                    c => o.push(*c),
                }
            }
            o
        };
        let maxlen = if thorough { 5 } else { 4 };
        let mut idx: Vec<usize> = vec![0];
        loop {
            let chars: Vec<char> = idx.iter().map(|i| SA[*i]).collect();
            let input: String = chars.iter().collect();
            let want = reference(&chars);
            let got = apply(&lang, "downcase", &sv(&input), &[]);
            let ok = obs_str(&got).map(|g| g == want).unwrap_or(false);
            let up_want: String = chars.iter().map(|c| match c { 'σ' | 'ς' => 'Σ', 'a' => 'A', c => *c }).collect();
            let up = apply(&lang, "upcase", &sv(&input), &[]);
            let ok_up = obs_str(&up).map(|g| g == up_want).unwrap_or(false);
            ctx.emit(format!("law sigma downcase-final-sigma {} {}", if ok { "ok" } else { "fail" }, xs(&format!("downcase of {:?}: want {:?}, got {}", input, want, got.tokens()))));
            if !ok_up {
                ctx.emit(format!("law sigma upcase-sigma fail {}", xs(&format!("upcase of {:?}: want {:?}, got {}", input, up_want, up.tokens()))));
            }
            // next index vector (odometer; lengths 1..=maxlen)
            let mut j = 0;
            loop {
                if j == idx.len() {
                    idx.push(0);
                    break;
                }
                idx[j] += 1;
                if idx[j] < SA.len() {
                    break;
                }
                idx[j] = 0;
                j += 1;
            }
            if idx.len() > maxlen {
                break;
            }
        }
        for w in ["ὈΔΥΣΣΕΎΣ", "ΚΑΛΗΜΕΡΑ ΚΟΣΜΟΣ", "ΣΑΣ", "Σ", "ΑΣ.", "ΑΣ.Α", "ΑΣ'", "AΣ", "1Σ"] {
            let got = apply(&lang, "downcase", &sv(w), &[]);
            let want = w.to_lowercase();
            let ok = obs_str(&got).map(|g| g == want).unwrap_or(false);
            ctx.emit(format!("law sigma downcase-documented-as-str-to-lowercase {} {}", if ok { "ok" } else { "fail" }, xs(&format!("downcase of {:?}: want {:?}, got {}", w, want, got.tokens()))));
        }
    }

    // ---- exhaustive small scope ----
    // thorough = the property's bounds (strings ≤ 4, arguments ≤ 2, integers −6..8) for the filters whose
    // result depends on where the argument occurs; quick = one character less on one axis
    let (n_trunc, n_slice) = if thorough { (3, 4) } else { (3, 3) };
    let s4 = strings(&ALPHABET, 4);
    let upto = |n: usize| -> &[String] {
        let cnt = (0..=n).map(|k| 10usize.pow(k as u32)).sum::<usize>();
        &s4[..cnt]
    };
    let args2: Vec<String> = upto(2).to_vec();
    let args1: Vec<String> = upto(1).to_vec();
    let ints: Vec<i64> = (-6..=8).collect();

    for f in NOARG {
        let kind = format!("exh-{}", f);
        for s in upto(4) {
            one(ctx, &lang, &kind, f, &sv(s), &[]);
        }
    }
    for f in STR1 {
        let kind = format!("exh-{}", f);
        let searching = matches!(*f, "split" | "remove" | "remove_first");
        if thorough && searching {
            for s in upto(4) {
                for a in &args2 {
                    one(ctx, &lang, &kind, f, &sv(s), &[sv(a)]);
                }
            }
        } else {
            for s in upto(3) {
                for a in &args2 {
                    one(ctx, &lang, &kind, f, &sv(s), &[sv(a)]);
                }
            }
            if thorough {
                for s in &s4[1111..] {
                    for a in &args1 {
                        one(ctx, &lang, &kind, f, &sv(s), &[sv(a)]);
                    }
                }
            }
        }
    }
    // replace / replace_first: search ≤ 2, replacement from a small set incl. the search string itself
    for f in ["replace", "replace_first"] {
        let kind = format!("exh-{}", f);
        for s in upto(3) {
            for p in if thorough || s.chars().count() <= 2 { &args2[..] } else { &args1[..] } {
                one(ctx, &lang, &kind, f, &sv(s), &[sv(p)]);
                for t in ["", "B", "é\u{301}", p.as_str()] {
                    one(ctx, &lang, &kind, f, &sv(s), &[sv(p), sv(t)]);
                }
            }
        }
        if thorough && f == "replace" {
            for s in &s4[1111..] {
                for p in &args2 {
                    one(ctx, &lang, &kind, f, &sv(s), &[sv(p), sv("é")]);
                }
            }
        }
    }
    // join: arrays of ≤ 3 strings of length ≤ 1 × separators ≤ 2 (and none)
    {
        let elems: Vec<&String> = args1.iter().collect();
        let mut arrays: Vec<Vec<Value>> = vec![vec![]];
        for a in &elems {
            arrays.push(vec![sv(a)]);
            for b in &elems {
                arrays.push(vec![sv(a), sv(b)]);
                if thorough {
                    for c in ["", "a", " ", "é"] {
                        arrays.push(vec![sv(a), sv(b), sv(c)]);
                    }
                }
            }
        }
        for arr in &arrays {
            let v = Value::Array(arr.clone());
            one(ctx, &lang, "exh-join", "join", &v, &[]);
            for sep in if thorough { &args2[..] } else { &args1[..] } {
                one(ctx, &lang, "exh-join", "join", &v, &[sv(sep)]);
            }
        }
    }
    // truncate / truncatewords: every integer in [-6, 8] × ellipses
    let ellipses = ["", ",", "é", "\u{301}", "aB", "😀\u{301}", "\u{301}a"];
    for f in ["truncate", "truncatewords"] {
        let kind = format!("exh-{}", f);
        for s in upto(n_trunc) {
            one(ctx, &lang, &kind, f, &sv(s), &[]);
            for n in &ints {
                one(ctx, &lang, &kind, f, &sv(s), &[iv(*n)]);
                for e in ellipses {
                    one(ctx, &lang, &kind, f, &sv(s), &[iv(*n), sv(e)]);
                }
            }
        }
        // length 4 (thorough): default ellipsis and the empty one
        let _ = n_trunc;
        if thorough {
            for s in &s4[1111..] {
                for n in &ints {
                    one(ctx, &lang, &kind, f, &sv(s), &[iv(*n)]);
                    one(ctx, &lang, &kind, f, &sv(s), &[iv(*n), sv("")]);
                }
            }
        }
    }
    // truncatewords wants longer, space-heavy inputs too
    {
        let words_alpha = ['a', ' ', 'é', '\n'];
        for s in strings(&words_alpha, if thorough { 7 } else { 5 }) {
            for n in [-1i64, 0, 1, 2, 3, 4, 8] {
                one(ctx, &lang, "exh-truncatewords", "truncatewords", &sv(&s), &[iv(n)]);
            }
        }
    }
    // slice: offset × length over [-6, 8] (length also absent)
    {
        for s in upto(n_slice) {
            for o in &ints {
                one(ctx, &lang, "exh-slice", "slice", &sv(s), &[iv(*o)]);
                for l in &ints {
                    one(ctx, &lang, "exh-slice", "slice", &sv(s), &[iv(*o), iv(*l)]);
                }
            }
        }
        // length 4 and 5..8 over the multi-byte part of the alphabet
        let mb = ['a', 'é', '\u{301}', '😀'];
        for s in strings(&mb, if thorough { 7 } else { 5 }) {
            if s.chars().count() <= n_slice {
                continue;
            }
            for o in &ints {
                one(ctx, &lang, "exh-slice", "slice", &sv(&s), &[iv(*o)]);
                for l in [1i64, 2, 3, 5, 8] {
                    one(ctx, &lang, "exh-slice", "slice", &sv(&s), &[iv(*o), iv(l)]);
                }
            }
        }
        // arrays share canonicalize_slice
        for n in 0..=5usize {
            let v = Value::Array((0..n).map(|i| iv(i as i64)).collect());
            for o in &ints {
                one(ctx, &lang, "exh-slice", "slice", &v, &[iv(*o)]);
                for l in &ints {
                    one(ctx, &lang, "exh-slice", "slice", &v, &[iv(*o), iv(*l)]);
                }
            }
        }
    }

    // ---- arity: every filter with 0..3 arguments ----
    for f in ALL {
        for n in 0..=3usize {
            let args: Vec<Value> = (0..n).map(|i| if i == 0 { iv(2) } else { sv("a") }).collect();
            one(ctx, &lang, "arity", f, &sv("a b a"), &args);
            one(ctx, &lang, "arity", f, &Value::Array(vec![sv("a"), sv("b")]), &args);
        }
    }
    // ---- integer parameters fed with other things ----
    {
        let odd: Vec<Value> = vec![
            sv("3"), sv("-2"), sv("+1"), sv(""), sv(" 3"), sv("3 "), sv("x"), sv("2.0"), sv("9223372036854775807"),
            sv("9223372036854775808"), sv("-9223372036854775808"), Value::scalar(2.0f64), Value::scalar(2.5f64),
            Value::Nil, Value::scalar(true), Value::Array(vec![iv(1)]), iv(i64::MAX), iv(i64::MIN),
        ];
        for a in &odd {
            for inp in [sv("a😀é\u{301}b c d"), sv("")] {
                one(ctx, &lang, "intarg", "truncate", &inp, &[a.clone()]);
                one(ctx, &lang, "intarg", "truncatewords", &inp, &[a.clone()]);
                one(ctx, &lang, "intarg", "slice", &inp, &[a.clone()]);
                one(ctx, &lang, "intarg", "slice", &inp, &[iv(1), a.clone()]);
                one(ctx, &lang, "intarg", "slice", &inp, &[a.clone(), iv(2)]);
                one(ctx, &lang, "intarg", "slice", &inp, &[a.clone(), a.clone()]);
            }
        }
    }
    // ---- non-string inputs and non-string arguments ----
    for inp in non_string_inputs() {
        for f in NOARG {
            one(ctx, &lang, "nonstring", f, &inp, &[]);
        }
        for f in STR1 {
            for a in [sv(""), sv("a"), sv(","), iv(1), Value::Nil, Value::scalar(true), Value::Array(vec![sv("a"), sv("b")])] {
                one(ctx, &lang, "nonstring", f, &inp, &[a]);
            }
        }
        for a in [vec![], vec![sv(", ")], vec![iv(0)], vec![Value::Nil]] {
            one(ctx, &lang, "nonstring", "join", &inp, &a);
        }
        for n in [-1i64, 0, 1, 2, 5] {
            one(ctx, &lang, "nonstring", "truncate", &inp, &[iv(n)]);
            one(ctx, &lang, "nonstring", "truncate", &inp, &[iv(n), iv(7)]);
            one(ctx, &lang, "nonstring", "truncatewords", &inp, &[iv(n)]);
            one(ctx, &lang, "nonstring", "slice", &inp, &[iv(n)]);
            one(ctx, &lang, "nonstring", "slice", &inp, &[iv(n), iv(3)]);
        }
        one(ctx, &lang, "nonstring", "replace", &inp, &[iv(1), iv(2)]);
        one(ctx, &lang, "nonstring", "replace_first", &inp, &[sv("a"), Value::Nil]);
    }

    // ---- laws on pairs of observations (exhaustive small scope) ----
    for s in upto(4) {
        let v = sv(s);
        let strip = apply(&lang, "strip", &v, &[]);
        let rs = apply(&lang, "rstrip", &v, &[]);
        let composed = match &rs {
            FObs::Ok(r) => apply(&lang, "lstrip", r, &[]),
            other => other.clone(),
        };
        law(ctx, "law-strip", &strip, &composed);
    }
    for s in upto(if thorough { 4 } else { 3 }) {
        let v = sv(s);
        for sep in if thorough { &args2[1..] } else { &args1[1..] } {
            if thorough && s.chars().count() == 4 && sep.chars().count() == 2 && !s.contains(sep.as_str()) {
                continue; // a separator that does not occur: covered by the length ≤ 3 block
            }
            let sp = apply(&lang, "split", &v, &[sv(sep)]);
            let back = match &sp {
                FObs::Ok(arr) => apply(&lang, "join", arr, &[sv(sep)]),
                other => other.clone(),
            };
            law(ctx, "law-splitjoin", &FObs::Ok(v.clone()), &back);
        }
    }

    // ---- random strings ≤ 200 from the full generator ----
    let n_rand = if thorough { 12000 } else { 1500 };
    for f in ALL {
        let kind = format!("rand-{}", f);
        for _ in 0..n_rand {
            let s = rand_string(&mut rng, 200);
            let len = s.chars().count();
            let input = if *f == "join" {
                let n = rng.below(5);
                Value::Array((0..n).map(|_| sv(&rand_string(&mut rng, 12))).collect())
            } else if *f == "slice" && rng.chance(1, 6) {
                let n = rng.below(9);
                Value::Array((0..n).map(|i| iv(i as i64)).collect())
            } else {
                sv(&s)
            };
            let args: Vec<Value> = match *f {
                "append" | "prepend" | "remove" | "remove_first" | "split" | "default" => vec![sv(&rand_arg(&mut rng, &s))],
                "replace" | "replace_first" => {
                    if rng.chance(1, 4) {
                        vec![sv(&rand_arg(&mut rng, &s))]
                    } else {
                        vec![sv(&rand_arg(&mut rng, &s)), sv(&rand_arg(&mut rng, &s))]
                    }
                }
                "join" => {
                    if rng.chance(1, 3) {
                        vec![]
                    } else {
                        vec![sv(&rand_arg(&mut rng, &s))]
                    }
                }
                "truncate" | "truncatewords" => match rng.below(3) {
                    0 => vec![],
                    1 => vec![iv(rand_int(&mut rng, len))],
                    _ => vec![iv(rand_int(&mut rng, len)), sv(&rand_arg(&mut rng, &s))],
                },
                "slice" => {
                    if rng.chance(1, 2) {
                        vec![iv(rand_int(&mut rng, len))]
                    } else {
                        let l = if rng.chance(1, 8) { rand_int(&mut rng, len) } else { rand_int(&mut rng, len).unsigned_abs().max(1).min(i64::MAX as u64) as i64 };
                        vec![iv(rand_int(&mut rng, len)), iv(l)]
                    }
                }
                _ => vec![],
            };
            one(ctx, &lang, &kind, f, &input, &args);
        }
    }
    // random law instances
    for _ in 0..n_rand {
        let s = rand_string(&mut rng, 200);
        let v = sv(&s);
        let strip = apply(&lang, "strip", &v, &[]);
        let rs = apply(&lang, "rstrip", &v, &[]);
        let composed = match &rs {
            FObs::Ok(r) => apply(&lang, "lstrip", r, &[]),
            other => other.clone(),
        };
        law(ctx, "law-strip", &strip, &composed);
        let sep = rand_arg(&mut rng, &s);
        if !sep.is_empty() {
            let sp = apply(&lang, "split", &v, &[sv(&sep)]);
            let back = match &sp {
                FObs::Ok(arr) => apply(&lang, "join", arr, &[sv(&sep)]),
                other => other.clone(),
            };
            law(ctx, "law-splitjoin", &FObs::Ok(v.clone()), &back);
        }
    }

    // ---- chains of 1..4 filters ----
    let n_chain = if thorough { 60000 } else { 6000 };
    for i in 0..n_chain {
        let input: Value = match rng.below(10) {
            0 => rng.pick(&non_string_inputs()).clone(),
            1 | 2 => sv(&rand_string(&mut rng, 30).chars().filter(|c| *c != '\u{0}').collect::<String>()),
            _ => {
                let n = rng.below(7);
                sv(&(0..n).map(|_| *rng.pick(&ALPHABET)).collect::<String>())
            }
        };
        let n = 1 + (i % 4);
        let mut calls = Vec::new();
        let mut cur = kstr(&input);
        let mut curv = input.clone();
        for _ in 0..n {
            let (name, args) = rand_call(&mut rng, &cur, curv.as_array().is_some());
            if let FObs::Ok(v) = apply(&lang, &name, &curv, &args) {
                cur = kstr(&v);
                curv = v;
            }
            calls.push((name, args));
        }
        let mut r2 = rng.fork();
        chain_case(ctx, &lang, &parser, &mut r2, input, calls);
    }
}
