//! C19: eager, lazy and on-demand partial compilation are observationally equivalent.
//! Every C08 scenario is rendered 1..3 times per parser under the three policies side by side.
use crate::ast::*;
use crate::c08::{scenario, Scenario};
use crate::gen::Gen;
use crate::run::*;
use crate::Ctx;
use std::panic::{catch_unwind, AssertUnwindSafe};

pub fn try_build(partials: &[PartialDef], policy: Policy) -> Option<liquid::Parser> {
    catch_unwind(AssertUnwindSafe(|| build_parser(partials, policy))).ok()
}

/// one scenario under the three policies, rendered `reps` times each
fn three_ways(ctx: &mut Ctx, sc: &Scenario, reps: usize) {
    let text = src_tmpl(&sc.main);
    let mut all: Vec<Vec<Obs>> = Vec::new();
    let mut build_failed = false;
    for pol in [Policy::Eager, Policy::Lazy, Policy::OnDemand] {
        match try_build(&sc.partials, pol) {
            None => {
                build_failed = true;
                all.push(vec![]);
            }
            Some(p) => all.push((0..reps).map(|_| render_text(&p, &text, &sc.data)).collect()),
        }
    }
    let first = all[0].first().cloned().unwrap_or(Obs::Panic("build".into()));
    let kind = if build_failed {
        "BUILD-FAILED"
    } else if all.iter().any(|rs| rs.iter().any(|r| r.tokens() != first.tokens())) {
        "POLICIES-DIFFER"
    } else {
        "scenario"
    };
    ctx.emit(render_case("c19", &format!("{}:{}", kind, reps), &sc.main, &sc.data, &sc.partials, &first));
}

/// every combination of {valid, unparsable, absent} for a partial `row` and its `row.liquid` sibling,
/// reached through every form of `include` / `render` (literal and variable name, empty and non-empty
/// collections)
fn sibling_grid(ctx: &mut Ctx) {
    use liquid_core::model::{Object, Value};
    let states: [Option<Result<Vec<Node>, String>>; 3] = [Some(Ok(vec![text("<row:"), out(var("it")), text(">")])), Some(Err("{% if it %}never closed".into())), None];
    let dotted: [Option<Result<Vec<Node>, String>>; 3] = [Some(Ok(vec![text("[dotted:"), out(var("it")), text("]")])), Some(Err("{{".into())), None];
    let mut data = Object::new();
    data.insert("items".into(), Value::Array((1..=3).map(Value::scalar).collect::<Vec<_>>()));
    data.insert("none".into(), Value::Array(vec![]));
    data.insert("which".into(), Value::scalar("row"));
    data.insert("it".into(), Value::scalar("caller"));
    for a in &states {
        for b in &dotted {
            let mut partials: Vec<PartialDef> = Vec::new();
            if let Some(p) = a {
                partials.push(("row".into(), p.clone()));
            }
            if let Some(p) = b {
                partials.push(("row.liquid".into(), p.clone()));
            }
            for name in [lit_s("row"), var("which"), lit_s("row.liquid")] {
                let mains: Vec<Vec<Node>> = vec![
                    vec![Node::Include(name.clone(), vec![])],
                    vec![Node::Include(name.clone(), vec![("it".into(), lit_i(7))])],
                    vec![Node::Render(name.clone(), RForm::Plain, vec![("it".into(), lit_i(7))])],
                    vec![Node::Render(name.clone(), RForm::With(lit_i(8), "it".into()), vec![])],
                    vec![Node::Render(name.clone(), RForm::For(RangeE::Arr(var("items")), "it".into()), vec![])],
                    vec![Node::Render(name.clone(), RForm::For(RangeE::Arr(var("none")), "it".into()), vec![])],
                    vec![Node::Render(name.clone(), RForm::For(RangeE::Counted(lit_i(1), lit_i(2)), "it".into()), vec![])],
                    vec![text("a"), Node::Render(name.clone(), RForm::For(RangeE::Arr(var("items")), "it".into()), vec![]), text("|"), Node::Render(name.clone(), RForm::Plain, vec![])],
                ];
                for main in mains {
                    let sc = Scenario { main, partials: partials.clone(), data: data.clone() };
                    three_ways(ctx, &sc, 2);
                }
            }
        }
    }
}

pub fn run(ctx: &mut Ctx) {
    sibling_grid(ctx);
    let n = if ctx.tier_thorough { 100_000 } else { 4_000 };
    let mut g = Gen::new(ctx.seed ^ 0xC19);
    for i in 0..n {
        g.allow_errors = i % 3 == 0;
        let sc = scenario(&mut g);
        let text = src_tmpl(&sc.main);
        let reps = 1 + g.rng.below(3);
        let mut all: Vec<Vec<Obs>> = Vec::new();
        let mut build_failed = false;
        for pol in [Policy::Eager, Policy::Lazy, Policy::OnDemand] {
            match try_build(&sc.partials, pol) {
                None => {
                    build_failed = true;
                    all.push(vec![]);
                }
                Some(p) => all.push((0..reps).map(|_| render_text(&p, &text, &sc.data)).collect()),
            }
        }
        let first = all[0].first().cloned().unwrap_or(Obs::Panic("build".into()));
        let kind = if build_failed {
            "BUILD-FAILED"
        } else if all.iter().any(|rs| rs.iter().any(|r| r.tokens() != first.tokens())) {
            "POLICIES-DIFFER"
        } else {
            "scenario"
        };
        ctx.emit(render_case("c19", &format!("{}:{}", kind, reps), &sc.main, &sc.data, &sc.partials, &first));
    }
}
