//! C19: eager, lazy and on-demand partial compilation are observationally equivalent.
//! Every C08 scenario is rendered 1..3 times per parser under the three policies side by side.
use crate::ast::*;
use crate::c08::scenario;
use crate::gen::Gen;
use crate::run::*;
use crate::Ctx;
use std::panic::{catch_unwind, AssertUnwindSafe};

pub fn try_build(partials: &[PartialDef], policy: Policy) -> Option<liquid::Parser> {
    catch_unwind(AssertUnwindSafe(|| build_parser(partials, policy))).ok()
}

pub fn run(ctx: &mut Ctx) {
    let n = if ctx.tier_thorough { 100_000 } else { 4_000 };
    let mut g = Gen::new(ctx.seed ^ 0xC19);
    for i in 0..n {
        g.allow_errors = i % 3 == 0;
        let sc = scenario(&mut g);
        let text = src_tmpl(&sc.main);
        let reps = 1 + g.rng.below(3);
        let mut all: Vec<Vec<Obs>> = Vec::new();
        let mut build_failed = false;
        for pol in [Policy::Eager, Policy::Lazy, Policy::OnDemand] {
            match try_build(&sc.partials, pol) {
                None => {
                    build_failed = true;
                    all.push(vec![]);
                }
                Some(p) => all.push((0..reps).map(|_| render_text(&p, &text, &sc.data)).collect()),
            }
        }
        let first = all[0].first().cloned().unwrap_or(Obs::Panic("build".into()));
        let kind = if build_failed {
            "BUILD-FAILED"
        } else if all.iter().any(|rs| rs.iter().any(|r| r.tokens() != first.tokens())) {
            "POLICIES-DIFFER"
        } else {
            "scenario"
        };
        ctx.emit(render_case("c19", &format!("{}:{}", kind, reps), &sc.main, &sc.data, &sc.partials, &first));
    }
}
