//! C04: scoping.  All programs up to a size bound over a two-name alphabet built from assign,
//! capture, increment, decrement, for, if, include and output (the same name is a caller datum, an
//! assigned variable, a loop variable, a counter and a partial argument), then random larger ones.
use crate::ast::*;
use crate::gen::Gen;
use crate::run::*;
use crate::Ctx;
use liquid_core::model::{Object, Value};

fn atoms() -> Vec<Node> {
    vec![
        out(var("a")),
        out(var("b")),
        Node::Assign("a".into(), lit_i(1), vec![]),
        Node::Assign("b".into(), var("a"), vec![]),
        Node::Incr("a".into()),
        Node::Decr("b".into()),
        Node::Include(lit_s("p"), vec![("a".into(), lit_i(5))]),
        Node::Include(lit_s("p"), vec![]),
    ]
}

fn wrap(kind: usize, body: Vec<Node>) -> Node {
    match kind {
        0 => Node::Capture("a".into(), body),
        1 => Node::For { x: "a".into(), rng: RangeE::Counted(lit_i(1), lit_i(2)), limit: None, offset: None, rev: false, body, els: None },
        2 => Node::For { x: "b".into(), rng: RangeE::Arr(var("arr")), limit: None, offset: None, rev: false, body, els: None },
        _ => Node::Cond { c: Cond::Exist(var("a")), mode: true, thn: body, els: None, elsif: false },
    }
}

/// all programs (node sequences) with exactly `size` nodes
fn programs(size: usize, depth: usize) -> Vec<Vec<Node>> {
    if size == 0 {
        return vec![vec![]];
    }
    let mut res = Vec::new();
    // first node is an atom, rest has size-1
    for a in atoms() {
        for rest in programs(size - 1, depth) {
            let mut p = vec![a.clone()];
            p.extend(rest);
            res.push(p);
        }
    }
    // first node is a block with a body of size k (>=1), rest has size-1-k
    if depth > 0 {
        for k in 1..size {
            for kind in 0..4 {
                for body in programs(k, depth - 1) {
                    for rest in programs(size - 1 - k, depth) {
                        let mut p = vec![wrap(kind, body.clone())];
                        p.extend(rest);
                        res.push(p);
                    }
                }
            }
        }
    }
    res
}

fn sep(p: Vec<Node>) -> Vec<Node> {
    // separate outputs so that "1" followed by "2" cannot be confused with "12"
    let mut o = Vec::new();
    for n in p {
        o.push(n);
        o.push(text("|"));
    }
    // final reads of every name: what persisted
    o.push(text("=>"));
    o.push(out(var("b")));
    o
}

pub fn run(ctx: &mut Ctx) {
    let partial: Vec<Node> = vec![text("["), out(var("a")), Node::Assign("a".into(), lit_i(9), vec![]), Node::Incr("b".into()), text("]")];
    let partials: Vec<PartialDef> = vec![("p".into(), Ok(partial))];
    let parser = build_parser(&partials, Policy::Eager);
    let mut datas = Vec::new();
    for has_a in [false, true] {
        let mut d = Object::new();
        if has_a {
            d.insert("a".into(), Value::scalar("A"));
        }
        d.insert("b".into(), Value::scalar("B"));
        d.insert("arr".into(), Value::Array(vec![Value::scalar(7i64), Value::scalar(8i64)]));
        datas.push(d);
    }
    let max = if ctx.tier_thorough { 4 } else { 3 };
    for size in 1..=max {
        for p in programs(size, 3) {
            let t = sep(p);
            for d in &datas {
                let before = serde_json::to_string(d).unwrap();
                let obs = render_text(&parser, &src_tmpl(&t), d);
                let after = serde_json::to_string(d).unwrap();
                let kind = if before == after { format!("exh{}", size) } else { "DATA-MODIFIED".to_string() };
                ctx.emit(render_case("c04", &kind, &t, d, &partials, &obs));
            }
        }
    }
    // random larger programs
    let n = if ctx.tier_thorough { 200_000 } else { 6_000 };
    let mut g = Gen::new(ctx.seed ^ 0xC04);
    g.allow_partials = true;
    g.partials = vec!["p".into()];
    for _ in 0..n {
        g.allow_errors = g.rng.chance(1, 3);
        let t = g.body(4, 4);
        let mut d = g.data();
        d.insert("pname".into(), Value::scalar("p"));
        let before = serde_json::to_string(&d).unwrap();
        let obs = render_text(&parser, &src_tmpl(&t), &d);
        let after = serde_json::to_string(&d).unwrap();
        let kind = if before == after { "random" } else { "DATA-MODIFIED" };
        ctx.emit(render_case("c04", kind, &t, &d, &partials, &obs));
    }
}
