//! C04: scoping.  All programs up to a size bound over a two-name alphabet built from assign,
//! capture, increment, decrement, for, if, include and output (the same name is a caller datum, an
//! assigned variable, a loop variable, a counter and a partial argument), then random larger ones.
use crate::ast::*;
use crate::gen::Gen;
use crate::run::*;
use crate::Ctx;
use liquid_core::model::{Object, Value};

fn atoms() -> Vec<Node> {
    vec![
        out(var("a")),
        out(var("b")),
        Node::Assign("a".into(), lit_i(1), vec![]),
        Node::Assign("b".into(), var("a"), vec![]),
        Node::Incr("a".into()),
        Node::Decr("b".into()),
        Node::Include(lit_s("p"), vec![("a".into(), lit_i(5))]),
        Node::Include(lit_s("p"), vec![]),
    ]
}

fn wrap(kind: usize, body: Vec<Node>) -> Node {
    match kind {
        0 => Node::Capture("a".into(), body),
        1 => Node::For { x: "a".into(), rng: RangeE::Counted(lit_i(1), lit_i(2)), limit: None, offset: None, rev: false, body, els: None },
        2 => Node::For { x: "b".into(), rng: RangeE::Arr(var("arr")), limit: None, offset: None, rev: false, body, els: None },
        _ => Node::Cond { c: Cond::Exist(var("a")), mode: true, thn: body, els: None, elsif: false },
    }
}

/// all programs (node sequences) with exactly `size` nodes
fn programs(size: usize, depth: usize) -> Vec<Vec<Node>> {
    if size == 0 {
        return vec![vec![]];
    }
    let mut res = Vec::new();
    // first node is an atom, rest has size-1
    for a in atoms() {
        for rest in programs(size - 1, depth) {
            let mut p = vec![a.clone()];
            p.extend(rest);
            res.push(p);
        }
    }
    // first node is a block with a body of size k (>=1), rest has size-1-k
    if depth > 0 {
        for k in 1..size {
            for kind in 0..4 {
                for body in programs(k, depth - 1) {
                    for rest in programs(size - 1 - k, depth) {
                        let mut p = vec![wrap(kind, body.clone())];
                        p.extend(rest);
                        res.push(p);
                    }
                }
            }
        }
    }
    res
}

fn sep(p: Vec<Node>) -> Vec<Node> {
    // separate outputs so that "1" followed by "2" cannot be confused with "12"
    let mut o = Vec::new();
    for n in p {
        o.push(n);
        o.push(text("|"));
    }
    // final reads of every name: what persisted
    o.push(text("=>"));
    o.push(out(var("b")));
    o
}

/// Laws of the property stated on the implementation alone (no model): each generated program has
/// an expected ending that follows from the statement of C04 by itself.
///  * PERSIST: `assign`/`capture` executed at ANY depth (inside loops / conditionals / includes that
///    may bind the very same name) is what a read at top level sees afterwards;
///  * SCOPED: a loop variable / include argument named like an assigned variable shadows it inside
///    and is gone afterwards (the assigned value is visible again);
///  * CAPTURE: `capture` prints nothing and binds exactly the text its body prints stand-alone.
fn laws(ctx: &mut Ctx) {
    let n = if ctx.tier_thorough { 100_000 } else { 4_000 };
    let mut g = Gen::new(ctx.seed ^ 0x1A_0C04);
    let names = ["a", "b", "x"];
    let partials: Vec<PartialDef> = vec![("w".into(), Ok(vec![Node::Assign("x".into(), var("v"), vec![])])), ("q".into(), Ok(vec![text("q"), Node::Cond { c: Cond::Exist(var("x")), mode: true, thn: vec![out(var("x"))], els: None, elsif: false }]))];
    let parser = build_parser(&partials, Policy::Eager);
    const M: &str = "\u{27e6}E\u{27e7}";
    // UNBOUND: a name nobody binds does not exist -- at top level and inside every kind of frame
    // (loop, tablerow, include with and without arguments, conditional), also when the name is one
    // that arrays and objects answer as a synthetic member (size / first / last)
    {
        let unames = ["size", "first", "last", "zz"];
        let mut ps: Vec<PartialDef> = Vec::new();
        for u in unames {
            ps.push((format!("pr_{}", u), Ok(vec![out(var(u))])));
            ps.push((format!("ex_{}", u), Ok(vec![Node::Cond { c: Cond::Exist(var(u)), mode: true, thn: vec![text("LEAK")], els: Some(vec![text("none")]), elsif: false }])));
        }
        let uparser = build_parser(&ps, Policy::Eager);
        let mut d = Object::new();
        d.insert("a".into(), Value::scalar("A"));
        d.insert("arr".into(), Value::Array(vec![Value::scalar(7i64), Value::scalar(8i64)]));
        let mut o = Object::new();
        o.insert("k".into(), Value::scalar(1i64));
        d.insert("obj".into(), Value::Object(o));
        for u in unames {
            for w in 0..8 {
                for printing in [true, false] {
                    let probe: Vec<Node> = if w >= 6 {
                        vec![Node::Include(lit_s(&format!("{}_{}", if printing { "pr" } else { "ex" }, u)), if w == 7 { vec![("v".into(), lit_i(1))] } else { vec![] })]
                    } else if printing {
                        vec![out(var(u))]
                    } else {
                        vec![Node::Cond { c: Cond::Exist(var(u)), mode: true, thn: vec![text("LEAK")], els: Some(vec![text("none")]), elsif: false }]
                    };
                    let mut body = vec![text(M)];
                    body.extend(probe);
                    let t: Vec<Node> = match w {
                        0 | 6 | 7 => body,
                        1 => vec![Node::For { x: "i".into(), rng: RangeE::Counted(lit_i(1), lit_i(1)), limit: None, offset: None, rev: false, body, els: None }],
                        2 => vec![Node::For { x: "i".into(), rng: RangeE::Arr(var("arr")), limit: Some(lit_i(1)), offset: None, rev: false, body, els: None }],
                        3 => vec![Node::For { x: "i".into(), rng: RangeE::Arr(var("obj")), limit: None, offset: None, rev: false, body, els: None }],
                        4 => vec![Node::TableRow { x: "i".into(), rng: RangeE::Counted(lit_i(1), lit_i(1)), cols: None, limit: None, offset: None, body }],
                        _ => vec![Node::Assign("b".into(), lit_i(2), vec![]), Node::Cond { c: Cond::Exist(Expr::Lit(Value::scalar(true))), mode: true, thn: body, els: None, elsif: false }],
                    };
                    let obs = render_text(&uparser, &src_tmpl(&t), &d);
                    let ok = match (&obs, printing) {
                        (Obs::Err(_), true) => true,
                        (Obs::Ok(s), false) => s.rfind(M).map(|p| s[p + M.len()..].starts_with("none")).unwrap_or(false),
                        _ => false,
                    };
                    let k = if ok { "law".to_string() } else { format!("UNBOUND:{}", if printing { "want-error" } else { "want-absent" }) };
                    ctx.emit(render_case("c04", &k, &t, &d, &ps, &obs));
                }
            }
        }
    }
    // NIL-ARG: an include argument whose value is nil is a binding like any other -- it shadows what the
    // caller, an assignment or a counter holds for that name
    {
        let ps: Vec<PartialDef> = vec![
            ("show".into(), Ok(vec![text("["), out(var("t")), text("]"), Node::Cond { c: Cond::Exist(var("t")), mode: true, thn: vec![text("SEEN")], els: Some(vec![text("nil")]), elsif: false }])),
        ];
        let nparser = build_parser(&ps, Policy::Eager);
        for (lower, pre) in [
            ("datum", vec![]),
            ("assigned", vec![Node::Assign("t".into(), lit_s("ASSIGNED"), vec![])]),
            ("captured", vec![Node::Capture("t".into(), vec![text("CAPTURED")])]),
            ("counter", vec![Node::Incr("t".into())]),
            ("loopvar", vec![]),
        ] {
            for argsrc in [Expr::Lit(Value::Nil), var("nothing"), path("o", &["nilmember"])] {
                let mut d = Object::new();
                if lower == "datum" {
                    d.insert("t".into(), Value::scalar("DATA"));
                }
                d.insert("nothing".into(), Value::Nil);
                let mut o = Object::new();
                o.insert("nilmember".into(), Value::Nil);
                d.insert("o".into(), Value::Object(o));
                let inc = Node::Include(lit_s("show"), vec![("t".into(), argsrc.clone())]);
                let mut t = pre.clone();
                if lower == "loopvar" {
                    t.push(Node::For { x: "t".into(), rng: RangeE::Counted(lit_i(7), lit_i(7)), limit: None, offset: None, rev: false, body: vec![text(M), inc], els: None });
                } else {
                    t.push(text(M));
                    t.push(inc);
                }
                let obs = render_text(&nparser, &src_tmpl(&t), &d);
                let ok = matches!(&obs, Obs::Ok(s) if s.rfind(M).map(|p| &s[p + M.len()..] == "[]nil").unwrap_or(false));
                let k = if ok { "law".to_string() } else { format!("SCOPED:nil-argument:want={}", crate::proto::hex("[]nil")) };
                ctx.emit(render_case("c04", &k, &t, &d, &ps, &obs));
            }
        }
    }
    // CAPTURE with an interrupt raised inside its body: the text printed up to the interrupt is bound
    // all the same (the interrupt concerns the enclosing loop, not the binding)
    for x in ["x", "a", "size"] {
        for (intr, want) in [(Node::Break, "got1"), (Node::Continue, "got3")] {
            for has_datum in [false, true] {
                let mut d = Object::new();
                if has_datum {
                    d.insert(x.to_string().into(), Value::scalar("DATA"));
                }
                let cap = Node::Capture(x.into(), vec![text("got"), out(var("i")), intr.clone(), text("never")]);
                let inner = vec![cap, text("unreached")];
                for nest in 0..3 {
                    let body = match nest {
                        0 => inner.clone(),
                        1 => vec![Node::Cond { c: Cond::Exist(Expr::Lit(Value::scalar(true))), mode: true, thn: inner.clone(), els: None, elsif: false }],
                        _ => vec![Node::Capture("outer".into(), inner.clone())],
                    };
                    let t = vec![Node::For { x: "i".into(), rng: RangeE::Counted(lit_i(1), lit_i(3)), limit: None, offset: None, rev: false, body, els: None }, text(M), out(var(x))];
                    let obs = render_text(&parser, &src_tmpl(&t), &d);
                    let ok = matches!(&obs, Obs::Ok(s) if s.rfind(M).map(|p| &s[p + M.len()..] == want).unwrap_or(false));
                    let k = if ok { "law".to_string() } else { format!("CAPTURE:want={}", crate::proto::hex(want)) };
                    ctx.emit(render_case("c04", &k, &t, &d, &partials, &obs));
                }
            }
        }
    }
    for i in 0..n {
        let x = names[g.rng.below(names.len())].to_string();
        let mut data = Object::new();
        if g.rng.chance(1, 2) {
            data.insert(x.clone().into(), Value::scalar("D"));
        }
        // a random context of 0..3 frames around `inner`, each executing its body at least once and
        // binding a random name (often the same one)
        fn wrap_ctx(g: &mut Gen, names: &[&str], inner: Vec<Node>, depth: usize) -> Vec<Node> {
            if depth == 0 {
                return inner;
            }
            let n = names[g.rng.below(names.len())].to_string();
            let body = wrap_ctx(g, names, inner, depth - 1);
            let lo = g.rng.range(1, 3);
            let hi = lo + g.rng.range(0, 2);
            vec![match g.rng.below(4) {
                0 => Node::For { x: n, rng: RangeE::Counted(lit_i(lo), lit_i(hi)), limit: None, offset: None, rev: g.rng.chance(1, 4), body, els: None },
                1 => Node::Cond { c: Cond::Exist(Expr::Lit(Value::scalar(true))), mode: true, thn: body, els: None, elsif: false },
                2 => Node::TableRow { x: n, rng: RangeE::Counted(lit_i(lo), lit_i(hi)), cols: None, limit: None, offset: None, body },
                _ => Node::For { x: "i".into(), rng: RangeE::Counted(lit_i(1), lit_i(1)), limit: None, offset: None, rev: false, body, els: None },
            }]
        }
        let depth = g.rng.below(4);
        if i % 4 == 3 {
            // SHADOW: a name re-bound by assign / capture / a loop variable hides the caller's datum of
            // that name completely — also the sub-paths that only the caller's value has
            let mut d2 = Object::new();
            let mut inner = Object::new();
            inner.insert("k".into(), Value::scalar("OUTER"));
            inner.insert("n".into(), Value::Array(vec![Value::scalar(1i64), Value::scalar(2i64)]));
            d2.insert(x.clone().into(), Value::Object(inner));
            let rebind = match g.rng.below(3) {
                0 => vec![Node::Assign(x.clone(), lit_s("mine"), vec![])],
                1 => vec![Node::Capture(x.clone(), vec![text("mine")])],
                _ => vec![],
            };
            let probe = |p: Expr| Node::Cond { c: Cond::Exist(p), mode: true, thn: vec![text("LEAK")], els: Some(vec![text("hidden")]), elsif: false };
            let probes = vec![probe(path(&x, &["k"])), probe(path(&x, &["n"])), probe(Expr::Var(x.clone(), vec![lit_s("k")])), probe(path(&x, &["n", "first"]))];
            let mut t = Vec::new();
            let expect;
            if rebind.is_empty() {
                // loop variable shadows inside the loop
                t.push(Node::For { x: x.clone(), rng: RangeE::Counted(lit_i(1), lit_i(1)), limit: None, offset: None, rev: false, body: { let mut b = vec![text(M)]; b.extend(probes.clone()); b }, els: None });
                expect = "hiddenhiddenhiddenhidden".to_string();
            } else {
                t.extend(wrap_ctx(&mut g, &names, rebind, depth));
                t.push(text(M));
                t.extend(probes.clone());
                expect = "hiddenhiddenhiddenhidden".to_string();
            }
            let obs = render_text(&parser, &src_tmpl(&t), &d2);
            let ok = match &obs {
                Obs::Ok(s) => s.rfind(M).map(|p| s[p + M.len()..] == expect).unwrap_or(false),
                _ => false,
            };
            let k = if ok { "law".to_string() } else { format!("SHADOW:want={}", crate::proto::hex(&expect)) };
            ctx.emit(render_case("c04", &k, &t, &d2, &partials, &obs));
            // the failing form: printing such a sub-path is an error, never the caller's value
            if !t.is_empty() {
                let mut t2: Vec<Node> = t.iter().take_while(|n| !matches!(n, Node::Text(s) if s == M)).cloned().collect();
                if t2.len() < t.len() {
                    t2.push(out(path(&x, &["k"])));
                    let obs2 = render_text(&parser, &src_tmpl(&t2), &d2);
                    let k2 = if matches!(obs2, Obs::Err(_)) { "law".to_string() } else { "SHADOW:want-error".to_string() };
                    ctx.emit(render_case("c04", &k2, &t2, &d2, &partials, &obs2));
                }
            }
            continue;
        }
        let (kind, t, expect): (&str, Vec<Node>, String) = match i % 3 {
            0 => {
                // PERSIST: the value assigned last is what the top level reads
                let val = g.rng.range(1, 4);
                let assign = match g.rng.below(4) {
                    0 => Node::Capture(x.clone(), vec![text(&val.to_string())]),
                    1 => Node::Include(lit_s("w"), vec![("v".into(), lit_i(val))]),
                    _ => Node::Assign(x.clone(), lit_i(val), vec![]),
                };
                let assign = if matches!(assign, Node::Include(..)) && x != "x" { Node::Assign(x.clone(), lit_i(val), vec![]) } else { assign };
                let mut t = vec![];
                if g.rng.chance(1, 3) {
                    t.push(Node::Incr(x.clone()));
                }
                t.extend(wrap_ctx(&mut g, &names, vec![assign], depth));
                t.push(text(M));
                t.push(out(var(&x)));
                ("PERSIST", t, val.to_string())
            }
            1 => {
                // SCOPED: inside the frame the bound value, afterwards the assigned one again
                let mut t = vec![Node::Assign(x.clone(), lit_s("G"), vec![])];
                let inner = vec![out(var(&x))];
                let lo = g.rng.range(1, 3);
                let frame = match g.rng.below(3) {
                    0 => Node::For { x: x.clone(), rng: RangeE::Counted(lit_i(lo), lit_i(lo + 1)), limit: None, offset: None, rev: false, body: wrap_ctx(&mut g, &["i", "j"], inner, depth.min(2)), els: None },
                    1 => Node::Include(lit_s("q"), vec![("x".into(), lit_i(lo))]),
                    _ => Node::Render(lit_s("q"), RForm::Plain, vec![("x".into(), lit_i(lo))]),
                };
                t.push(frame);
                t.push(text(M));
                t.push(out(var(&x)));
                ("SCOPED", t, "G".to_string())
            }
            _ => {
                // CAPTURE: the captured text is what the body prints on its own
                g.guarded = true;
                g.no_counters = true;
                let body = g.body(2, 3);
                g.guarded = false;
                g.no_counters = false;
                let alone = render_text(&parser, &src_tmpl(&body), &data);
                let mut t = vec![Node::Capture(x.clone(), body)];
                t.push(text(M));
                t.push(out(var(&x)));
                match alone {
                    Obs::Ok(s) => ("CAPTURE", t, s),
                    _ => ("law-skip", t, String::new()),
                }
            }
        };
        let obs = render_text(&parser, &src_tmpl(&t), &data);
        let ok = match (&obs, kind) {
            (_, "law-skip") => true,
            (Obs::Ok(s), "CAPTURE") => s.starts_with(M) && s[M.len()..] == expect,
            (Obs::Ok(s), _) => s.rfind(M).map(|p| s[p + M.len()..] == expect).unwrap_or(false),
            _ => false,
        };
        let k = if ok { "law".to_string() } else { format!("{}:want={}", kind, crate::proto::hex(&expect)) };
        ctx.emit(render_case("c04", &k, &t, &data, &partials, &obs));
    }
}

pub fn run(ctx: &mut Ctx) {
    laws(ctx);
    let partial: Vec<Node> = vec![text("["), out(var("a")), Node::Assign("a".into(), lit_i(9), vec![]), Node::Incr("b".into()), text("]")];
    let partials: Vec<PartialDef> = vec![("p".into(), Ok(partial))];
    let parser = build_parser(&partials, Policy::Eager);
    let mut datas = Vec::new();
    for has_a in [false, true] {
        let mut d = Object::new();
        if has_a {
            d.insert("a".into(), Value::scalar("A"));
        }
        d.insert("b".into(), Value::scalar("B"));
        d.insert("arr".into(), Value::Array(vec![Value::scalar(7i64), Value::scalar(8i64)]));
        datas.push(d);
    }
    let max = if ctx.tier_thorough { 4 } else { 3 };
    for size in 1..=max {
        for p in programs(size, 3) {
            let t = sep(p);
            for d in &datas {
                let before = serde_json::to_string(d).unwrap();
                let obs = render_text(&parser, &src_tmpl(&t), d);
                let after = serde_json::to_string(d).unwrap();
                let kind = if before == after { format!("exh{}", size) } else { "DATA-MODIFIED".to_string() };
                ctx.emit(render_case("c04", &kind, &t, d, &partials, &obs));
            }
        }
    }
    // random larger programs
    let n = if ctx.tier_thorough { 200_000 } else { 6_000 };
    let mut g = Gen::new(ctx.seed ^ 0xC04);
    g.allow_partials = true;
    g.partials = vec!["p".into()];
    for _ in 0..n {
        g.allow_errors = g.rng.chance(1, 3);
        let t = g.body(4, 4);
        let mut d = g.data();
        d.insert("pname".into(), Value::scalar("p"));
        let before = serde_json::to_string(&d).unwrap();
        let obs = render_text(&parser, &src_tmpl(&t), &d);
        let after = serde_json::to_string(&d).unwrap();
        let kind = if before == after { "random" } else { "DATA-MODIFIED" };
        ctx.emit(render_case("c04", kind, &t, &d, &partials, &obs));
    }
}
