//! Correspondence harness: runs the real liquid-rust crates in-process on generated cases and
//! prints one protocol line per case (input + canonical observation) for the Lean driver.
mod ast;
mod proto;
mod rng;
mod run;
mod c01;
mod c02;
mod c04;
mod c05;
mod c06;
mod c07;
mod c08;
mod c09;
mod c10;
mod c19;
mod c20;
mod gen;
mod c18;
mod c16;
mod c15;
mod c11;
mod c12;
mod c13;
mod c17;
mod c14;
mod c03;
pub mod filters;

use std::io::Write;

pub struct Ctx {
    pub tier_thorough: bool,
    pub seed: u64,
    pub out: Vec<String>,
}

impl Ctx {
    pub fn emit(&mut self, line: String) {
        self.out.push(line);
    }
}

fn main() {
    let args: Vec<String> = std::env::args().collect();
    if args.get(1).map(|a| a == "--render-one").unwrap_or(false) {
        std::panic::set_hook(Box::new(|_| {}));
        run::render_one_from_stdin();
        return;
    }
    if args.len() < 4 {
        eprintln!("usage: harness <property> <quick|thorough> <seed> [replay-file]");
        std::process::exit(2);
    }
    // silence the default panic hook: panics are observations here
    std::panic::set_hook(Box::new(|_| {}));
    let mut ctx = Ctx { tier_thorough: args[2] == "thorough", seed: args[3].parse().unwrap_or(0), out: Vec::new() };
    match args[1].as_str() {
        "C01" => c01::run(&mut ctx),
        "C02" => c02::run(&mut ctx),
        "C04" => c04::run(&mut ctx),
        "C05" => c05::run(&mut ctx),
        "C06" => c06::run(&mut ctx),
        "C07" => c07::run(&mut ctx),
        "C08" => c08::run(&mut ctx),
        "C09" => c09::run(&mut ctx),
        "C10" => c10::run(&mut ctx),
        "C19" => c19::run(&mut ctx),
        "C20" => c20::run(&mut ctx),
        "C18" => c18::run(&mut ctx),
        "C16" => c16::run(&mut ctx),
        "C15" => c15::run(&mut ctx),
        "C11" => c11::run(&mut ctx),
        "C12" => c12::run(&mut ctx),
        "C13" => c13::run(&mut ctx),
        "C17" => c17::run(&mut ctx),
        "C14" => c14::run(&mut ctx),
        "C03" => c03::run(&mut ctx),
        other => {
            eprintln!("unknown property {}", other);
            std::process::exit(2);
        }
    }
    let _ = std::fs::remove_dir_all(std::env::temp_dir().join(format!("liquid-verif-harness-{}", std::process::id())));
    let only: Option<usize> = args.iter().position(|a| a == "--only").and_then(|i| args.get(i + 1)).and_then(|s| s.parse().ok());
    let stdout = std::io::stdout();
    let mut w = std::io::BufWriter::new(stdout.lock());
    for (i, l) in ctx.out.iter().enumerate() {
        if only.map_or(true, |o| o == i) {
            writeln!(w, "{}", l).unwrap();
        }
    }
}
