//! C15: arithmetic filters are exact or fail; they never wrap or crash.
//!
//! Follows the property's quantifier text: all pairs of the boundary set as integers, as numeric
//! strings and as floats (all 3×3 encodings) for the seven binary filters, the set itself for the
//! four unary ones, all pairs of k/8 (|k| ≤ 40: every .5 tie) as floats, `round` with decimal
//! places, non-numbers, then random 64-bit operands.
//!
//! Line: `c15 <kind> x<filter> <input> <nargs> <arg>* => <obs> [& <obs2>]`
//!   kind `divmod…`: obs = divided_by, obs2 = modulo on the same integer pair;
//!   kind `str…`   : obs = with the numeric strings, obs2 = with the numbers they spell.
use crate::filters::{apply, filter_case, language, FObs};
use crate::rng::Rng;
use crate::Ctx;
use liquid_core::model::Value;
use liquid_core::parser::Language;

pub const BIN: &[&str] = &["plus", "minus", "times", "divided_by", "modulo", "at_least", "at_most"];
pub const UN: &[&str] = &["abs", "ceil", "floor", "round"];

#[derive(Clone, Copy, PartialEq, Debug)]
enum Enc {
    Int,
    Str,
    Flt,
}
const ENCS: [Enc; 3] = [Enc::Int, Enc::Str, Enc::Flt];

/// An operand: the number and how it is presented to the filter.
#[derive(Clone, Debug)]
enum Opd {
    I(i64),
    F(f64),
    /// numeric string spelling the integer
    SI(i64, String),
    /// numeric string spelling the float (always contains `.`, `e`, `inf` or `NaN`)
    SF(f64, String),
}

impl Opd {
    fn value(&self) -> Value {
        match self {
            Opd::I(i) => Value::scalar(*i),
            Opd::F(f) => Value::scalar(*f),
            Opd::SI(_, s) | Opd::SF(_, s) => Value::scalar(s.clone()),
        }
    }
    /// the number the operand spells, as a number
    fn number(&self) -> Value {
        match self {
            Opd::I(i) | Opd::SI(i, _) => Value::scalar(*i),
            Opd::F(f) | Opd::SF(f, _) => Value::scalar(*f),
        }
    }
    fn is_str(&self) -> bool {
        matches!(self, Opd::SI(..) | Opd::SF(..))
    }
    fn is_int(&self) -> bool {
        matches!(self, Opd::I(_))
    }
    fn tag(&self) -> &'static str {
        match self {
            Opd::I(_) => "i",
            Opd::F(_) => "f",
            Opd::SI(..) => "si",
            Opd::SF(..) => "sf",
        }
    }
}

fn str_of_int(i: i64, style: usize) -> Opd {
    let s = match style % 3 {
        1 if i >= 0 => format!("+{}", i),
        2 => {
            if i < 0 {
                format!("-00{}", i.unsigned_abs())
            } else {
                format!("00{}", i)
            }
        }
        _ => i.to_string(),
    };
    assert_eq!(s.parse::<i64>().ok(), Some(i));
    Opd::SI(i, s)
}

/// a spelling of `f` that is not also an integer literal and that `parse::<f64>` maps back to `f`
fn str_of_float(f: f64, style: usize) -> Option<Opd> {
    let s = match style % 3 {
        1 => format!("{:e}", f),
        2 if f.is_finite() && f.abs() < 1e15 && f.abs() >= 1e-5 || f == 0.0 => format!("{:.20}", f),
        _ => format!("{:?}", f),
    };
    if s.parse::<i64>().is_ok() {
        return None;
    }
    match s.parse::<f64>() {
        Ok(g) if g.to_bits() == f.to_bits() => Some(Opd::SF(f, s)),
        _ => None,
    }
}

fn enc_int(i: i64, e: Enc) -> Opd {
    match e {
        Enc::Int => Opd::I(i),
        Enc::Str => str_of_int(i, 0),
        Enc::Flt => Opd::F(i as f64),
    }
}

pub fn boundary() -> Vec<i64> {
    let mut v: Vec<i64> = vec![0, 1, -1, 2, -2, 3, -3, 7, -7, 10];
    v.extend([1i64 << 31, -(1i64 << 31), 1i64 << 62, -(1i64 << 62), i64::MAX - 1, i64::MAX, i64::MIN, i64::MIN + 1]);
    // beyond the property's list: the multiplication boundary and the 53-bit precision boundary
    v.extend([3037000499, 3037000500, -3037000500, (1i64 << 53) + 1, -(1i64 << 53) - 1, (1i64 << 31) - 1]);
    // the 32-bit boundaries (both factors fit 32 bits, the product does not fit 63)
    v.extend([(1i64 << 32) - 1, 1i64 << 32, 4_000_000_000, -((1i64 << 32) - 1)]);
    v
}

struct Gen<'a> {
    ctx: &'a mut Ctx,
    lang: Language,
}

impl<'a> Gen<'a> {
    fn plain(&mut self, kind: &str, name: &str, input: &Value, args: &[Value]) {
        let obs = apply(&self.lang, name, input, args);
        self.ctx.emit(filter_case("c15", kind, name, input, args, &obs));
    }

    fn with2(&mut self, kind: &str, name: &str, input: &Value, args: &[Value], obs: &FObs, obs2: &FObs) {
        let mut l = filter_case("c15", kind, name, input, args, obs);
        l.push_str(" & ");
        l.push_str(&obs2.tokens());
        self.ctx.emit(l);
    }

    /// one binary application; picks the line shape from the operand kinds
    fn bin(&mut self, label: &str, name: &str, a: &Opd, b: &Opd) {
        let (va, vb) = (a.value(), b.value());
        let obs = apply(&self.lang, name, &va, &[vb.clone()]);
        if a.is_str() || b.is_str() {
            let obs2 = apply(&self.lang, name, &a.number(), &[b.number()]);
            let kind = format!("str-{}:{}:{}{}", label, name, a.tag(), b.tag());
            self.with2(&kind, name, &va, &[vb], &obs, &obs2);
        } else {
            let bucket = if a.is_int() && b.is_int() { "int" } else { "float" };
            let kind = format!("{}-{}:{}:{}{}", bucket, label, name, a.tag(), b.tag());
            self.ctx.emit(filter_case("c15", &kind, name, &va, &[vb], &obs));
        }
    }

    fn divmod(&mut self, label: &str, a: i64, b: i64) {
        let (va, vb) = (Value::scalar(a), Value::scalar(b));
        let q = apply(&self.lang, "divided_by", &va, &[vb.clone()]);
        let r = apply(&self.lang, "modulo", &va, &[vb.clone()]);
        self.with2(&format!("divmod-{}", label), "divided_by", &va, &[vb], &q, &r);
    }

    fn un(&mut self, label: &str, name: &str, a: &Opd, extra: &[Value]) {
        let va = a.value();
        let obs = apply(&self.lang, name, &va, extra);
        if a.is_str() {
            let obs2 = apply(&self.lang, name, &a.number(), extra);
            self.with2(&format!("str-{}:{}:{}", label, name, a.tag()), name, &va, extra, &obs, &obs2);
        } else {
            let bucket = if a.is_int() { "int" } else { "float" };
            self.ctx.emit(filter_case("c15", &format!("{}-{}:{}:{}", bucket, label, name, a.tag()), name, &va, extra, &obs));
        }
    }
}

fn rand_int(r: &mut Rng) -> i64 {
    match r.below(8) {
        0 => r.range(-20, 20),
        1 => i64::MAX - r.range(0, 40),
        2 => i64::MIN + r.range(0, 40),
        3 => {
            let p = 1i64 << r.range(1, 62);
            let v = p + r.range(-3, 3);
            if r.chance(1, 2) {
                -v
            } else {
                v
            }
        }
        4 => 3037000499 + r.range(-3, 3),
        5 => (r.next() >> r.range(1, 63)) as i64 * if r.chance(1, 2) { -1 } else { 1 },
        _ => r.next() as i64,
    }
}

fn rand_float(r: &mut Rng) -> f64 {
    match r.below(8) {
        0 => f64::from_bits(r.next()),
        1 => r.range(-400, 400) as f64 / 8.0,
        2 => rand_int(r) as f64,
        3 => {
            // integer ± a fraction near a tie
            let base = r.range(-1000, 1000) as f64 + 0.5;
            f64::from_bits((base.to_bits() as i64 + r.range(-2, 2)) as u64)
        }
        4 => *r.pick(&[0.0, -0.0, f64::INFINITY, f64::NEG_INFINITY, f64::NAN, f64::MIN_POSITIVE, 5e-324, f64::MAX, f64::MIN,
                       9223372036854775807.0, -9223372036854775808.0, 9223372036854774784.0, 0.49999999999999994, 4503599627370495.5,
                       4503599627370496.0, -4503599627370495.5]),
        5 => {
            let e = r.range(-60, 70);
            (r.range(-(1 << 20), 1 << 20) as f64) * (2.0f64).powi(e as i32)
        }
        6 => r.range(-100000, 100000) as f64 / 1000.0,
        _ => {
            // near the i64 range boundary
            let b = 9223372036854775808.0f64;
            let f = f64::from_bits((b.to_bits() as i64 + r.range(-3, 3)) as u64);
            if r.chance(1, 2) {
                -f
            } else {
                f
            }
        }
    }
}

fn rand_opd(r: &mut Rng) -> Opd {
    match r.below(10) {
        0..=3 => Opd::I(rand_int(r)),
        4..=6 => Opd::F(rand_float(r)),
        7 => str_of_int(rand_int(r), r.below(3)),
        _ => {
            let f = rand_float(r);
            str_of_float(f, r.below(3)).unwrap_or(Opd::F(f))
        }
    }
}

pub fn run(ctx: &mut Ctx) {
    let thorough = ctx.tier_thorough;
    let seed = ctx.seed;
    let mut g = Gen { ctx, lang: language(false) };
    let b = boundary();

    // --- corpus: the D6 witnesses first ---
    for (name, x, y) in [
        ("plus", i64::MAX, 1i64),
        ("minus", i64::MIN, 1),
        ("times", i64::MAX, 2),
        ("times", i64::MIN, -1),
        ("divided_by", i64::MIN, -1),
        ("modulo", i64::MIN, -1),
    ] {
        g.bin("corpus", name, &Opd::I(x), &Opd::I(y));
    }
    g.un("corpus", "abs", &Opd::I(i64::MIN), &[]);
    g.divmod("corpus", i64::MIN, -1);

    // --- boundary set: all pairs × all 3×3 encodings × binary filters ---
    for name in BIN {
        for &x in &b {
            for &y in &b {
                for ea in ENCS {
                    for eb in ENCS {
                        g.bin("boundary", name, &enc_int(x, ea), &enc_int(y, eb));
                    }
                }
            }
        }
    }
    for &x in &b {
        for &y in &b {
            g.divmod("boundary", x, y);
        }
    }
    // --- the other spellings of an integer that `parse::<i64>` accepts: an explicit `+`, leading zeros ---
    {
        let small: Vec<i64> = vec![0, 1, 2, 3, 7, 10, -7, 1i64 << 31, (1i64 << 53) + 1, i64::MAX, i64::MIN + 1];
        for name in BIN {
            for &x in &small {
                for &y in &small {
                    for style in [1usize, 2] {
                        g.bin("spelling", name, &str_of_int(x, style), &Opd::I(y));
                        g.bin("spelling", name, &Opd::I(x), &str_of_int(y, style));
                        g.bin("spelling", name, &str_of_int(x, style), &str_of_int(y, 3 - style));
                    }
                }
            }
        }
        for name in UN {
            for &x in &small {
                for style in [1usize, 2] {
                    g.un("spelling", name, &str_of_int(x, style), &[]);
                }
            }
        }
    }
    // --- boundary set × unary filters ---
    for name in UN {
        for &x in &b {
            for e in ENCS {
                g.un("boundary", name, &enc_int(x, e), &[]);
            }
        }
    }
    // --- k/8 grid: every .5 tie ---
    let grid: Vec<f64> = (-40..=40).map(|k| k as f64 / 8.0).collect();
    for name in BIN {
        for &x in &grid {
            for &y in &grid {
                g.bin("grid8", name, &Opd::F(x), &Opd::F(y));
            }
        }
    }
    for name in UN {
        for &x in &grid {
            g.un("grid8", name, &Opd::F(x), &[]);
            if let Some(s) = str_of_float(x, 0) {
                g.un("grid8", name, &s, &[]);
            }
        }
    }
    // grid as strings / mixed with small integers
    let step = if thorough { 1 } else { 7 };
    for name in BIN {
        for (i, &x) in grid.iter().enumerate() {
            for (j, &y) in grid.iter().enumerate() {
                if (i * 81 + j) % step != 0 {
                    continue;
                }
                if let (Some(sx), Some(sy)) = (str_of_float(x, i + j), str_of_float(y, j)) {
                    g.bin("grid8", name, &sx, &sy);
                    g.bin("grid8", name, &sx, &Opd::F(y));
                }
                g.bin("grid8", name, &Opd::F(x), &Opd::I((y * 8.0) as i64));
                g.bin("grid8", name, &Opd::I((x * 8.0) as i64), &Opd::F(y));
            }
        }
    }
    // --- special floats ---
    let specials = [0.0, -0.0, f64::INFINITY, f64::NEG_INFINITY, f64::NAN, f64::MIN_POSITIVE, 5e-324, f64::MAX, f64::MIN,
                    9223372036854775807.0, -9223372036854775808.0, 9223372036854774784.0, -9223372036854777856.0,
                    0.49999999999999994, -0.49999999999999994, 4503599627370495.5, 4503599627370496.5, 1e300, -1e300, 0.1, 2.5];
    for name in BIN {
        for &x in &specials {
            for &y in &specials {
                g.bin("special", name, &Opd::F(x), &Opd::F(y));
            }
            for &y in &[0i64, 1, -1, 3, i64::MAX, i64::MIN] {
                g.bin("special", name, &Opd::F(x), &Opd::I(y));
                g.bin("special", name, &Opd::I(y), &Opd::F(x));
                if let Some(s) = str_of_float(x, 0) {
                    g.bin("special", name, &s, &Opd::I(y));
                    g.bin("special", name, &Opd::I(y), &s);
                }
            }
        }
    }
    for name in UN {
        for &x in &specials {
            g.un("special", name, &Opd::F(x), &[]);
            for st in 0..3 {
                if let Some(s) = str_of_float(x, st) {
                    g.un("special", name, &s, &[]);
                }
            }
        }
    }
    // --- round with decimal places ---
    let places: Vec<Value> = vec![
        Value::scalar(-3i64), Value::scalar(-1i64), Value::scalar(0i64), Value::scalar(1i64), Value::scalar(2i64), Value::scalar(3i64),
        Value::scalar(5i64), Value::scalar(15i64), Value::scalar(22i64), Value::scalar("2"), Value::scalar("x"), Value::scalar(2.0f64),
        Value::Nil, Value::scalar(true), Value::scalar(i32::MAX as i64 + 1), Value::scalar(i64::MAX), Value::scalar(i64::MIN),
        Value::scalar(23i64), Value::scalar(40i64), Value::scalar(308i64), Value::scalar(309i64), Value::scalar(i32::MAX as i64),
    ];
    for p in &places {
        for &x in grid.iter().chain(specials.iter()) {
            g.un("places", "round", &Opd::F(x), std::slice::from_ref(p));
        }
        for &x in &[0i64, 5, -7, i64::MAX, i64::MIN] {
            g.un("places", "round", &Opd::I(x), std::slice::from_ref(p));
            g.un("places", "round", &str_of_int(x, 0), std::slice::from_ref(p));
        }
        g.un("places", "round", &Opd::SF(4.5612, "4.5612".into()), std::slice::from_ref(p));
    }
    // --- non-numbers, arity ---
    let junk: Vec<Value> = vec![
        Value::Nil, Value::scalar(true), Value::scalar(""), Value::scalar("abc"), Value::scalar(" 1"), Value::scalar("1 "), Value::scalar("1_0"),
        Value::scalar("0x10"), Value::scalar("1e"), Value::scalar("."), Value::scalar("-"), Value::scalar("+"), Value::scalar("1.5.2"),
        Value::scalar("٣"), Value::scalar("1e5"), Value::scalar(".5"), Value::scalar("5."), Value::scalar("-.5e-1"), Value::scalar("+1E+2"),
        Value::scalar("inf"), Value::scalar("-Infinity"), Value::scalar("nan"), Value::scalar("NaN"), Value::scalar("infinit"),
        Value::scalar("9223372036854775808"), Value::scalar("-9223372036854775809"), Value::scalar("0.0"), Value::scalar("-0"), Value::scalar("-0.0"),
        Value::scalar("00"), Value::scalar("1e400"), Value::scalar("1e-400"), Value::scalar("123456789012345678901234567890"),
        Value::scalar("0.1000000000000000055511151231257827021181583404541015625"), Value::scalar("2.2250738585072011e-308"),
        Value::Array(vec![Value::scalar(1i64)]), Value::Object(Default::default()),
    ];
    for name in BIN {
        for j in &junk {
            for other in [Value::scalar(3i64), Value::scalar(0i64), Value::scalar(2.5f64), Value::scalar("4")] {
                g.plain("nonnum", name, j, std::slice::from_ref(&other));
                g.plain("nonnum", name, &other, std::slice::from_ref(j));
            }
        }
        g.plain("arity", name, &Value::scalar(1i64), &[]);
        g.plain("arity", name, &Value::scalar(1i64), &[Value::scalar(1i64), Value::scalar(2i64)]);
    }
    for name in UN {
        for j in &junk {
            g.plain("nonnum", name, j, &[]);
        }
        g.plain("arity", name, &Value::scalar(1i64), &[Value::scalar(1i64), Value::scalar(2i64)]);
        if *name != "round" {
            g.plain("arity", name, &Value::scalar(1i64), &[Value::scalar(1i64)]);
        }
    }

    // --- random 64-bit operands ---
    let mut r = Rng::new(seed);
    let n_random = if thorough { 600_000 } else { 25_000 };
    for i in 0..n_random {
        let a = rand_opd(&mut r);
        if i % 6 == 5 {
            let name = *r.pick(UN);
            if name == "round" && r.chance(1, 2) {
                let p = Value::scalar(r.range(-2, 24));
                g.un("random", name, &a, &[p]);
            } else {
                g.un("random", name, &a, &[]);
            }
        } else {
            let bb = rand_opd(&mut r);
            let name = *r.pick(BIN);
            g.bin("random", name, &a, &bb);
            if let (Opd::I(x), Opd::I(y)) = (&a, &bb) {
                if i % 4 == 0 {
                    g.divmod("random", *x, *y);
                }
            }
        }
    }
}
