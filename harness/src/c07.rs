//! C07: variable paths and literals denote the right value or fail loudly.
use crate::ast::*;
use crate::proto::xs;
use crate::rng::Rng;
use crate::run::*;
use crate::Ctx;
use liquid_core::model::{Object, Value};

fn obj(kvs: Vec<(&str, Value)>) -> Value {
    let mut o = Object::new();
    for (k, v) in kvs {
        o.insert(k.to_string().into(), v);
    }
    Value::Object(o)
}
fn arr(vs: Vec<Value>) -> Value {
    Value::Array(vs)
}
fn i(n: i64) -> Value {
    Value::scalar(n)
}
fn s(t: &str) -> Value {
    Value::scalar(t.to_owned())
}

/// nested data: arrays of length 0..5 inside objects inside arrays, keys colliding with the
/// special names, integer-like keys, non-ASCII strings
fn data() -> Object {
    let inner = obj(vec![
        ("xs", arr(vec![i(10), i(11), i(12), i(13), i(14)])),
        ("e", arr(vec![])),
        ("one", arr(vec![s("solo")])),
        ("size", s("own-size")),
        ("first", s("own-first")),
        ("0", s("zero-key")),
        ("007", s("bond")),
        ("7", s("seven")),
        ("+1", s("plus-one")),
        ("-0", s("minus-zero")),
        ("k", obj(vec![("deep", arr(vec![s("d0"), s("d1")]))])),
    ]);
    let mut d = Object::new();
    d.insert("a".into(), arr(vec![arr(vec![i(1), i(2), i(3)]), inner.clone(), arr(vec![]), s("ééé"), Value::Nil]));
    d.insert("o".into(), inner);
    d.insert("plain".into(), obj(vec![("p", i(1)), ("q", i(2))]));
    d.insert("str".into(), s("héllo"));
    d.insert("n".into(), i(42));
    d.insert("t".into(), Value::scalar(true));
    d.insert("idx0".into(), i(0));
    d.insert("idx1".into(), i(1));
    d.insert("idxm1".into(), i(-1));
    d.insert("idxbig".into(), i(7));
    d.insert("key_xs".into(), s("xs"));
    d.insert("key_size".into(), s("size"));
    d.insert("key_missing".into(), s("nope"));
    d.insert("sidx".into(), s("1"));
    d.insert("fidx".into(), Value::scalar(1.5f64));
    d.insert("ptr".into(), obj(vec![("i", i(1)), ("k", s("k"))]));
    d.insert("arrkey".into(), arr(vec![i(1)]));
    d
}

fn steps() -> Vec<Expr> {
    let mut v: Vec<Expr> = Vec::new();
    for n in -7..=6 {
        v.push(lit_i(n));
    }
    for k in ["xs", "e", "one", "size", "first", "last", "0", "1", "k", "deep", "p", "nope", "é", "007", "7", "+1", "-0", "00"] {
        v.push(lit_s(k));
    }
    for x in ["idx0", "idx1", "idxm1", "idxbig", "key_xs", "key_size", "key_missing", "sidx", "undefined_var", "arrkey", "t"] {
        v.push(var(x));
    }
    v.push(path("ptr", &["i"]));
    v.push(path("ptr", &["k"]));
    v.push(path("ptr", &["zz"]));
    // not positions: decimals (also whole ones), strings that merely look numeric
    for f in [1.5f64, -0.5, 0.0, 1.0, 2.5, -1.0] {
        v.push(Expr::Lit(Value::scalar(f)));
    }
    for k in ["1.5", "nan", "1e0", "0.0", " 1", "1 "] {
        v.push(lit_s(k));
    }
    v.push(var("fidx"));
    v.push(Expr::Lit(Value::scalar(i64::MIN)));
    v.push(Expr::Lit(Value::scalar(i64::MAX)));
    v.push(Expr::Lit(Value::Nil));
    v.push(Expr::Lit(Value::scalar(true)));
    v
}

/// Reference resolution of a variable path, written from the statement of C07 alone: array indices
/// count from the front (0..n-1) or from the end (-1..-n) and nothing else exists; first/last/size
/// have their documented meaning, an object's own key wins over them; a step that does not exist
/// fails.  `None` = the statement does not decide this case (exotic index kinds), no verdict.
fn spec_path(data: &Object, root: &str, idx: &[Expr]) -> Option<Result<Value, ()>> {
    use liquid_core::model::ValueView;
    let mut cur: Value = match data.get(root) {
        Some(v) => v.clone(),
        None => return Some(Err(())),
    };
    for e in idx {
        let step: Value = match e {
            Expr::Lit(v) => v.clone(),
            Expr::Var(r, sub) => match spec_path(data, r, sub)? {
                Ok(v) => v,
                Err(()) => return Some(Err(())),
            },
        };
        let sc = match step.as_scalar() {
            Some(sc) => sc.into_owned(),
            None => return None,
        };
        let as_int = if sc.type_name() == "whole number" { sc.to_integer() } else { None };
        let as_str = if sc.type_name() == "string" { Some(sc.to_kstr().to_string()) } else { None };
        cur = match (&cur, as_int, as_str.as_deref()) {
            (Value::Array(a), Some(i), _) => {
                let n = a.len() as i64;
                let k = if i >= 0 { i } else { n + i };
                if i < -n || k >= n || k < 0 {
                    return Some(Err(()));
                }
                a[k as usize].clone()
            }
            (Value::Array(a), None, Some("first")) => match a.first() {
                Some(v) => v.clone(),
                None => return Some(Err(())),
            },
            (Value::Array(a), None, Some("last")) => match a.last() {
                Some(v) => v.clone(),
                None => return Some(Err(())),
            },
            (Value::Array(a), None, Some("size")) => Value::scalar(a.len() as i64),
            // a string that is no integer and none of the three names is not a position
            (Value::Array(_), None, Some(t)) if t.trim().parse::<i64>().is_err() && t.parse::<f64>().map(|f| f.fract() != 0.0 || !f.is_finite()).unwrap_or(true) => return Some(Err(())),
            // a number with a fraction is not a position
            (Value::Array(_), None, None) if sc.type_name() == "fractional number" && sc.to_float().map(|f| f.fract() != 0.0).unwrap_or(false) => return Some(Err(())),
            (Value::Object(o), _, _) => {
                let key = sc.to_kstr().to_string();
                match o.get(key.as_str()) {
                    Some(v) => v.clone(),
                    None if key == "size" => Value::scalar(o.len() as i64),
                    None => return Some(Err(())),
                }
            }
            (Value::Scalar(sv), None, Some("size")) if sv.type_name() == "string" => Value::scalar(sv.to_kstr().chars().count() as i64),
            // a scalar has no members (whether `size` of a number means anything is left to the model)
            (Value::Scalar(_), _, Some(t)) if t != "size" => return Some(Err(())),
            (Value::Scalar(_), Some(_), _) => return Some(Err(())),
            (Value::Nil, _, _) => return Some(Err(())),
            _ => return None,
        };
    }
    Some(Ok(cur))
}

/// a path case: what the reference resolution says must be what the output tag prints
fn path_case(ctx: &mut Ctx, parser: &liquid::Parser, kind: &str, root: &str, idx: Vec<Expr>, wrap: bool, data: &Object) {
    use liquid_core::model::ValueView;
    let e = Expr::Var(root.into(), idx.clone());
    let t = if wrap { vec![text("<"), out(e), text(">")] } else { vec![out(e)] };
    let obs = render_text(parser, &src_tmpl(&t), data);
    let mut k = kind.to_string();
    match (spec_path(data, root, &idx), &obs) {
        (Some(Ok(v)), Obs::Ok(s)) => {
            let want = if wrap { format!("<{}>", v.render()) } else { v.render().to_string() };
            if *s != want {
                k = format!("PATHLAW:{}", kind);
            }
        }
        (Some(Ok(_)), _) => k = format!("PATHLAW:{}", kind),
        (Some(Err(())), Obs::Err(_)) => {}
        (Some(Err(())), _) => k = format!("PATHLAW:{}", kind),
        (None, _) => {}
    }
    ctx.emit(render_case("c07r", &k, &t, data, &[], &obs));
}

fn case(ctx: &mut Ctx, parser: &liquid::Parser, kind: &str, t: Vec<Node>, data: &Object) {
    let obs = render_text(parser, &src_tmpl(&t), data);
    ctx.emit(render_case("render", kind, &t, data, &[], &obs));
}

fn lit_case(ctx: &mut Ctx, parser: &liquid::Parser, kind: &str, text: &str, expect_float: Option<String>) {
    let d = Object::new();
    let obs = render_text(parser, &format!("{{{{ {} }}}}", text), &d);
    let exp = match expect_float {
        Some(e) => xs(&e),
        None => "-".into(),
    };
    ctx.emit(format!("lit {} {} {} => {}", kind, xs(text), exp, obs.tokens()));
}

pub fn run(ctx: &mut Ctx) {
    let parser = build_parser(&[], Policy::Eager);
    let d = data();
    let st = steps();
    let roots = ["a", "o", "plain", "str", "n", "undefined_root"];
    // paths of length 1 and 2 exhaustively, 3 and 4 sampled (thorough: 3 exhaustively)
    for r in roots {
        case(ctx, &parser, "path1", vec![text("<"), out(var(r)), text(">")], &d);
        for s1 in &st {
            path_case(ctx, &parser, "path2", r, vec![s1.clone()], true, &d);
        }
    }
    let mut rng = Rng::new(ctx.seed ^ 0xC07);
    if ctx.tier_thorough {
        for r in ["a", "o"] {
            for s1 in &st {
                for s2 in &st {
                    path_case(ctx, &parser, "path3", r, vec![s1.clone(), s2.clone()], false, &d);
                }
            }
        }
    }
    let n = if ctx.tier_thorough { 200_000 } else { 12_000 };
    // guided random walks: prefer steps that exist so that deep paths are reached
    let good1: Vec<Expr> = vec![lit_i(0), lit_i(1), lit_i(-4), lit_i(-1), lit_s("xs"), lit_s("k"), lit_s("one"), var("idx1"), var("key_xs"), path("ptr", &["i"]), path("ptr", &["k"])];
    for _ in 0..n {
        let len = 2 + rng.below(3);
        let r = *rng.pick(&["a", "o", "a", "o", "plain", "str"]);
        let mut idx = Vec::new();
        for _ in 0..len {
            idx.push(if rng.chance(3, 5) { rng.pick(&good1).clone() } else { rng.pick(&st).clone() });
        }
        path_case(ctx, &parser, &format!("path{}", len + 1), r, idx, false, &d);
    }
    // --- paths through a re-bound root: the innermost binding of the root decides every later step;
    // a member only the shadowed (outer) value has does not exist ---
    {
        use liquid_core::model::ValueView;
        let sources: Vec<Expr> = vec![var("plain"), var("o"), var("n"), var("str"), path("o", &["k"]), path("o", &["xs"]), path("a", &["first"]), lit_i(5), lit_s("txt"), var("arrkey"), Expr::Lit(Value::Nil)];
        let probes: Vec<Vec<Expr>> = vec![
            vec![lit_s("xs")], vec![lit_s("p")], vec![lit_s("k")], vec![lit_s("size")], vec![lit_s("first")], vec![lit_i(0)], vec![lit_i(-1)], vec![lit_i(4)],
            vec![lit_s("k"), lit_s("deep")], vec![lit_s("xs"), lit_i(1)], vec![lit_s("deep"), lit_i(0)], vec![var("key_xs")], vec![lit_s("one"), lit_s("first")],
        ];
        for target in ["o", "a", "plain", "str", "fresh"] {
            for src in &sources {
                let newv = match src {
                    Expr::Lit(v) => Some(Ok(v.clone())),
                    Expr::Var(r, sub) => spec_path(&d, r, sub),
                };
                let newv = match newv {
                    Some(Ok(v)) => v,
                    _ => continue,
                };
                let mut eff = d.clone();
                eff.insert(target.to_string().into(), newv.clone());
                for idx in &probes {
                    // by assignment
                    let t = vec![Node::Assign(target.into(), src.clone(), vec![]), text("<"), out(Expr::Var(target.into(), idx.clone())), text(">")];
                    let obs = render_text(&parser, &src_tmpl(&t), &d);
                    let mut k = "shadow-assign".to_string();
                    match (spec_path(&eff, target, idx), &obs) {
                        (Some(Ok(v)), Obs::Ok(s)) if *s == format!("<{}>", v.render()) => {}
                        (Some(Err(())), Obs::Err(_)) => {}
                        (None, _) => {}
                        _ => k = "PATHLAW:shadow-assign".to_string(),
                    }
                    ctx.emit(render_case("c07r", &k, &t, &d, &[], &obs));
                    // by a loop variable (one iteration over a one-element array holding the new value)
                    if newv.is_nil() {
                        continue;
                    }
                    let mut d2 = d.clone();
                    d2.insert("one_elem".into(), Value::Array(vec![newv.clone()]));
                    let t = vec![Node::For {
                        x: target.into(),
                        rng: RangeE::Arr(var("one_elem")),
                        limit: None,
                        offset: None,
                        rev: false,
                        body: vec![text("<"), out(Expr::Var(target.into(), idx.clone())), text(">")],
                        els: None,
                    }];
                    let obs = render_text(&parser, &src_tmpl(&t), &d2);
                    let mut k = "shadow-for".to_string();
                    match (spec_path(&eff, target, idx), &obs) {
                        (Some(Ok(v)), Obs::Ok(s)) if *s == format!("<{}>", v.render()) => {}
                        (Some(Err(())), Obs::Err(_)) => {}
                        (None, _) => {}
                        _ => k = "PATHLAW:shadow-for".to_string(),
                    }
                    ctx.emit(render_case("c07r", &k, &t, &d2, &[], &obs));
                }
            }
        }
    }
    // --- paths rooted at a counter (a name only `increment` / `decrement` created): a counter is an integer,
    // it has no members ---
    {
        for (tag_incr, times) in [(true, 1usize), (true, 2), (true, 11), (false, 1), (false, 2)] {
            for idx in [
                vec![], vec![lit_s("nope")], vec![lit_i(0)], vec![lit_i(-1)], vec![lit_s("first")], vec![lit_s("k")], vec![lit_s("a"), lit_s("b")], vec![var("idx0")],
                vec![lit_s("size")],
            ] {
                let mut t: Vec<Node> = Vec::new();
                for _ in 0..times {
                    t.push(if tag_incr { Node::Incr("cnt".into()) } else { Node::Decr("cnt".into()) });
                }
                t.push(text("|"));
                t.push(out(Expr::Var("cnt".into(), idx.clone())));
                let obs = render_text(&parser, &src_tmpl(&t), &d);
                // the counter's value after the tags: increment counts 0,1,2… and leaves n; decrement leaves -n
                let value = if tag_incr { times as i64 } else { -(times as i64) };
                let mut eff = d.clone();
                eff.insert("cnt".into(), i(value));
                let printed: String = if tag_incr { (0..times).map(|k| k.to_string()).collect() } else { (1..=times).map(|k| format!("-{}", k)).collect() };
                let mut k = "counter-root".to_string();
                match (spec_path(&eff, "cnt", &idx), &obs) {
                    (Some(Ok(v)), Obs::Ok(s)) if *s == format!("{}|{}", printed, liquid_core::model::ValueView::render(&v)) => {}
                    (Some(Err(())), Obs::Err(_)) => {}
                    (None, _) => {}
                    _ => k = "PATHLAW:counter-root".to_string(),
                }
                ctx.emit(render_case("c07r", &k, &t, &d, &[], &obs));
            }
        }
    }
    // --- wide collections: sizes around 64 / 128 / 256 entries, lookups of present and missing members ---
    {
        let sizes: Vec<usize> = (60..=70).chain(126..=130).chain(254..=258).collect();
        for n in sizes {
            let mut o = Object::new();
            for k in 0..n {
                o.insert(format!("k{:03}", k).into(), i(k as i64));
            }
            let mut dw = Object::new();
            dw.insert("o".into(), Value::Object(o));
            dw.insert("a".into(), arr((0..n as i64).map(i).collect()));
            dw.insert("s".into(), s(&"\u{e9}".repeat(n)));
            for idx in [
                vec![lit_s("missing")], vec![lit_s("k000")], vec![lit_s(&format!("k{:03}", n - 1))], vec![lit_s(&format!("k{:03}", n))], vec![lit_s("size")],
                vec![lit_s("missing"), lit_s("deeper")], vec![lit_s("first")],
            ] {
                path_case(ctx, &parser, "wide-object", "o", idx, false, &dw);
            }
            let n = n as i64;
            for idx in [vec![lit_i(n)], vec![lit_i(n - 1)], vec![lit_i(-n)], vec![lit_i(-n - 1)], vec![lit_s("size")], vec![lit_s("last")], vec![lit_s("missing")]] {
                path_case(ctx, &parser, "wide-array", "a", idx, false, &dw);
            }
            path_case(ctx, &parser, "wide-string", "s", vec![lit_s("size")], false, &dw);
            path_case(ctx, &parser, "wide-string", "s", vec![lit_s("missing")], false, &dw);
        }
    }
    // --- the public `find` called directly (no runtime in front of it): every path of length 0..2 over
    // keys that exist, keys that do not, indices in and out of range ---
    {
        use liquid_core::model::{find, ScalarCow, ValueView};
        let root = Value::Object(d.clone());
        let keys: Vec<Value> = vec![s("a"), s("o"), s("missing"), s("str"), s("n"), i(0), i(-1), i(9), s("first"), s("size"), s("xs"), s("zz")];
        let mut paths: Vec<Vec<Value>> = vec![vec![]];
        for k1 in &keys {
            paths.push(vec![k1.clone()]);
            for k2 in &keys {
                paths.push(vec![k1.clone(), k2.clone()]);
            }
        }
        for path in paths {
            let scalars: Vec<ScalarCow<'_>> = path.iter().map(|v| v.as_scalar().unwrap().into_owned()).collect();
            let r = std::panic::catch_unwind(std::panic::AssertUnwindSafe(|| find(root.as_view(), &scalars).map(|v| v.into_owned())));
            let obs = match r {
                Ok(Ok(v)) => format!("ok {}", crate::proto::value_tokens_sorted(&v)),
                Ok(Err(_)) => "err".to_string(),
                Err(_) => "PANIC -".to_string(),
            };
            let ptoks: Vec<String> = path.iter().map(crate::proto::value_tokens).collect();
            ctx.emit(format!("findapi find {} {} {} => {}", crate::proto::value_tokens(&root), path.len(), ptoks.join(" "), obs).replace("  ", " "));
        }
    }
    // --- the two ways of asking an array view about an index agree: contains_key(i) <=> get(i) is some ---
    {
        use liquid_core::model::ArrayView;
        for n in 0..=5usize {
            let v: Vec<Value> = (0..n).map(|k| i(k as i64)).collect();
            let view: &dyn ArrayView = &v;
            for idx in -(n as i64) - 3..=(n as i64) + 2 {
                let (c, g) = (view.contains_key(idx), view.get(idx).is_some());
                let want = (0 <= idx && idx < n as i64) || (idx < 0 && -idx <= n as i64);
                let ok = c == g && g == want;
                ctx.emit(format!("law array-index contains-key-iff-get {} {}", if ok { "ok" } else { "fail" }, xs(&format!("len={} index={} contains_key={} get.is_some={} in-range={}", n, idx, c, g, want))));
            }
        }
    }
    // --- literals ---
    let bounds: [i128; 14] = [0, 1, -1, 9, 10, 99, 100, i64::MAX as i128, i64::MAX as i128 - 1, i64::MIN as i128, i64::MIN as i128 + 1,
        i64::MAX as i128 + 1, i64::MIN as i128 - 1, 12345678901234567890];
    for b in bounds {
        lit_case(ctx, &parser, "int", &b.to_string(), None);
        if b >= 0 {
            lit_case(ctx, &parser, "int-plus", &format!("+{}", b), None);
            lit_case(ctx, &parser, "int-zeros", &format!("00{}", b), None);
        }
    }
    let sweeps = if ctx.tier_thorough { 50_000 } else { 2_000 };
    for _ in 0..sweeps {
        let bits = rng.below(64) as u32;
        let v = (rng.next() >> (63 - bits)) as i64;
        let v = if rng.chance(1, 2) { v.wrapping_neg() } else { v };
        lit_case(ctx, &parser, "int", &v.to_string(), None);
    }
    for _ in 0..(sweeps / 4) {
        // beyond 64 bits: 19..24 digit numbers
        let digits = 19 + rng.below(6);
        let mut t = String::new();
        if rng.chance(1, 2) {
            t.push('-');
        }
        t.push((b'1' + rng.below(9) as u8) as char);
        for _ in 1..digits {
            t.push((b'0' + rng.below(10) as u8) as char);
        }
        lit_case(ctx, &parser, "int-big", &t, None);
    }
    for _ in 0..(sweeps / 2) {
        let whole = rng.below(100000);
        let fd = 1 + rng.below(6);
        let mut frac = String::new();
        for _ in 0..fd {
            frac.push((b'0' + rng.below(10) as u8) as char);
        }
        let t = format!("{}{}.{}", if rng.chance(1, 3) { "-" } else { "" }, whole, frac);
        let exp = format!("{}", t.parse::<f64>().unwrap());
        lit_case(ctx, &parser, "float", &t, Some(exp));
    }
    let alphabet: Vec<char> = "aB \t,<é\u{301}😀{}%|:.-_#'\"\\n".chars().collect();
    for _ in 0..sweeps {
        let q = if rng.chance(1, 2) { '\'' } else { '"' };
        let len = rng.below(8);
        let body: String = (0..len).map(|_| *rng.pick(&alphabet)).filter(|c| *c != q).collect();
        // a body containing `}}` or `%}` would end the tag early: that is C01/C03 territory
        if body.contains("}}") || body.contains("%}") {
            continue;
        }
        lit_case(ctx, &parser, "string", &format!("{}{}{}", q, body, q), None);
    }
    // no escape sequences: a backslash denotes itself, also as the last character of a literal
    for t in ["'\\'", "\"\\\"", "'C:\\temp\\'", "'a\\nb'", "'\\t'", "\"x\\\\\"", "'\\\\'"] {
        lit_case(ctx, &parser, "string-backslash", t, None);
    }
    for t in ["true", "false", "nil", "null", "empty", "blank"] {
        lit_case(ctx, &parser, "keyword", t, None);
    }
}
