//! C08 (and the scenario generator reused by C09/C19/C20): a caller and 1..3 partials (nested up to
//! depth 3, no recursion) that read, assign, capture, increment and break/continue over a shared
//! name alphabet, invoked through include and every argument form of render, from inside and
//! outside loops, with literal and dynamic names, with missing and broken partials on executed and
//! on dead paths.
use crate::ast::*;
use crate::gen::Gen;
use crate::run::*;
use crate::Ctx;
use liquid_core::model::{Object, Value};

pub struct Scenario {
    pub main: Vec<Node>,
    pub partials: Vec<PartialDef>,
    pub data: Object,
}

fn tail() -> Vec<Node> {
    // caller-visible variables after everything
    let mut t = vec![text("|")];
    for n in crate::gen::NAMES {
        t.push(Node::Cond { c: Cond::Exist(var(n)), mode: true, thn: vec![text(n), text("="), out(var(n)), text(";")], els: None, elsif: false });
    }
    t
}

pub fn scenario(g: &mut Gen) -> Scenario {
    let np = 1 + g.rng.below(3);
    let mut partials: Vec<PartialDef> = Vec::new();
    g.allow_partials = true;
    let mut avail: Vec<String> = Vec::new();
    for i in 0..np {
        let name = format!("p{}", i + 1);
        g.partials = avail.clone();
        if g.rng.chance(1, 4) {
            g.partials.push("missing".into());
        }
        let body = g.body(if i == 0 { 1 } else { 2 }, 3);
        partials.push((name.clone(), Ok(body)));
        avail.push(name);
    }
    if g.rng.chance(1, 2) {
        partials.push(("broken".into(), Err("{% if %}x{{".into())));
    }
    g.partials = avail.clone();
    g.dynamic_names = true;
    if g.rng.chance(1, 3) {
        g.partials.push("missing".into());
    }
    if g.rng.chance(1, 3) {
        g.partials.push("broken".into());
    }
    let mut main = g.body(3, 4);
    g.dynamic_names = false;
    // a call on a dead path must not matter
    if g.rng.chance(1, 3) {
        main.push(Node::Cond {
            c: Cond::Exist(Expr::Lit(Value::scalar(false))),
            mode: true,
            thn: vec![Node::Include(lit_s("missing"), vec![]), Node::Render(lit_s("broken"), RForm::Plain, vec![])],
            els: None,
            elsif: false,
        });
    }
    // a call inside a loop, followed by reads
    if g.rng.chance(1, 2) && !avail.is_empty() {
        let p = g.rng.pick(&avail).clone();
        let call = if g.rng.chance(1, 2) { Node::Include(lit_s(&p), vec![("x".into(), var("i"))]) } else { Node::Render(lit_s(&p), RForm::Plain, vec![("x".into(), var("i"))]) };
        main.push(Node::For { x: "i".into(), rng: RangeE::Counted(lit_i(1), lit_i(3)), limit: None, offset: None, rev: false, body: vec![text("("), call, text(")")], els: None });
    }
    main.extend(tail());
    let mut data = g.data();
    let dynamic = if avail.is_empty() { "missing".to_string() } else { g.rng.pick(&avail).clone() };
    data.insert("pname".into(), Value::scalar(dynamic));
    Scenario { main, partials, data }
}

pub fn run(ctx: &mut Ctx) {
    let n = if ctx.tier_thorough { 300_000 } else { 10_000 };
    let mut g = Gen::new(ctx.seed ^ 0xC08);
    for i in 0..n {
        g.allow_errors = i % 3 == 0;
        let sc = scenario(&mut g);
        let parser = build_parser(&sc.partials, Policy::Eager);
        let obs = render_text(&parser, &src_tmpl(&sc.main), &sc.data);
        ctx.emit(render_case("render", "scenario", &sc.main, &sc.data, &sc.partials, &obs));
    }
}
