//! C08 (and the scenario generator reused by C09/C19/C20): a caller and 1..3 partials (nested up to
//! depth 3, no recursion) that read, assign, capture, increment and break/continue over a shared
//! name alphabet, invoked through include and every argument form of render, from inside and
//! outside loops, with literal and dynamic names, with missing and broken partials on executed and
//! on dead paths.
use crate::ast::*;
use crate::gen::Gen;
use crate::run::*;
use crate::Ctx;
use liquid_core::model::{Object, Value, ValueView};

pub struct Scenario {
    pub main: Vec<Node>,
    pub partials: Vec<PartialDef>,
    pub data: Object,
}

fn tail() -> Vec<Node> {
    // caller-visible variables after everything
    let mut t = vec![text("|")];
    for n in crate::gen::NAMES {
        t.push(Node::Cond { c: Cond::Exist(var(n)), mode: true, thn: vec![text(n), text("="), out(var(n)), text(";")], els: None, elsif: false });
    }
    t
}

pub fn scenario(g: &mut Gen) -> Scenario {
    let np = 1 + g.rng.below(3);
    let mut partials: Vec<PartialDef> = Vec::new();
    g.allow_partials = true;
    let mut avail: Vec<String> = Vec::new();
    for i in 0..np {
        let name = format!("p{}", i + 1);
        g.partials = avail.clone();
        if g.rng.chance(1, 4) {
            g.partials.push("missing".into());
        }
        let mut body = g.body(if i == 0 { 1 } else { 2 }, 3);
        // a partial's source is used as it is: a byte-order mark, blank lines or spaces at its very
        // start or end are text like any other
        if g.rng.chance(1, 5) {
            body.insert(0, text(*g.rng.pick(&["\u{feff}", "\u{feff}x", "\n", " \r\n", "\u{feff}\n", "\u{fffe}"])));
        }
        if g.rng.chance(1, 8) {
            body.push(text(*g.rng.pick(&["\n", " ", "\u{feff}"])));
        }
        partials.push((name.clone(), Ok(body)));
        avail.push(name);
    }
    if g.rng.chance(1, 2) {
        // (sometimes with a well-formed sibling under the name `render` falls back to when `broken`
        // cannot be had -- under every store policy alike)
        if g.rng.chance(1, 3) {
            partials.push(("broken.liquid".into(), Ok(vec![text("<dotted-broken>"), out(var("x"))])));
        }
        partials.push(("broken".into(), Err("{% if %}x{{".into())));
    }
    // names that differ only by the `.liquid` suffix `render` falls back to
    if g.rng.chance(1, 3) {
        partials.push(("p1.liquid".into(), Ok(vec![text("<dotted-p1>")])));
        avail.push("p1.liquid".into());
    }
    // a name with a backslash and one with a slash are different names
    if g.rng.chance(1, 5) {
        partials.push(("dir\\leaf".into(), Ok(vec![text("<backslash>")])));
        avail.push("dir\\leaf".into());
        if g.rng.chance(1, 2) {
            partials.push(("dir/leaf".into(), Ok(vec![text("<slash>")])));
            avail.push("dir/leaf".into());
        }
    }
    if g.rng.chance(1, 4) {
        partials.push(("solo.liquid".into(), Ok(vec![text("<solo>"), Node::Assign("a".into(), lit_s("solo"), vec![])])));
        avail.push("solo.liquid".into());
        avail.push("solo".into());
    }
    g.partials = avail.clone();
    g.dynamic_names = true;
    if g.rng.chance(1, 3) {
        g.partials.push("missing".into());
    }
    if g.rng.chance(1, 3) {
        g.partials.push("broken".into());
    }
    let mut main = g.body(3, 4);
    g.dynamic_names = false;
    // a call on a dead path must not matter
    if g.rng.chance(1, 3) {
        main.push(Node::Cond {
            c: Cond::Exist(Expr::Lit(Value::scalar(false))),
            mode: true,
            thn: vec![Node::Include(lit_s("missing"), vec![]), Node::Render(lit_s("broken"), RForm::Plain, vec![])],
            els: None,
            elsif: false,
        });
    }
    // a call inside a loop, followed by reads
    if g.rng.chance(1, 2) && !avail.is_empty() {
        let p = g.rng.pick(&avail).clone();
        let call = if g.rng.chance(1, 2) { Node::Include(lit_s(&p), vec![("x".into(), var("i"))]) } else { Node::Render(lit_s(&p), RForm::Plain, vec![("x".into(), var("i"))]) };
        main.push(Node::For { x: "i".into(), rng: RangeE::Counted(lit_i(1), lit_i(3)), limit: None, offset: None, rev: false, body: vec![text("("), call, text(")")], els: None });
    }
    // the same include / render tag executed several times with a different name each time
    let mut pnames: Vec<Value> = Vec::new();
    if g.rng.chance(1, 2) && !avail.is_empty() {
        let k = 2 + g.rng.below(2);
        for _ in 0..k {
            let n = if g.rng.chance(1, 8) { "missing".to_string() } else { g.rng.pick(&avail).clone() };
            pnames.push(Value::scalar(n));
        }
        // sometimes with an argument keyed like the name variable itself (the name is evaluated in the
        // caller's scope, the argument only binds inside the partial)
        let shadow: Vec<(String, Expr)> = if g.rng.chance(1, 3) { vec![("pn".into(), lit_s(&g.rng.pick(&avail).clone()))] } else { vec![] };
        let call = if g.rng.chance(1, 2) { Node::Include(var("pn"), shadow) } else { Node::Render(var("pn"), RForm::Plain, shadow) };
        main.push(Node::For { x: "pn".into(), rng: RangeE::Arr(var("pnames")), limit: None, offset: None, rev: false, body: vec![text("~"), call, text("^")], els: None });
    }
    main.extend(tail());
    let mut data = g.data();
    data.insert("pnames".into(), Value::Array(pnames));
    let dynamic = if avail.is_empty() { "missing".to_string() } else { g.rng.pick(&avail).clone() };
    data.insert("pname".into(), Value::scalar(dynamic));
    Scenario { main, partials, data }
}

/// The text after the last `marker` of a successful render.
fn after<'a>(o: &'a Obs, marker: &str) -> Option<&'a str> {
    match o {
        Obs::Ok(s) => s.rfind(marker).map(|i| &s[i + marker.len()..]),
        _ => None,
    }
}
fn between<'a>(o: &'a Obs, open: &str, close: &str) -> Option<&'a str> {
    match o {
        Obs::Ok(s) => {
            let i = s.find(open)? + open.len();
            let j = s.rfind(close)?;
            if i <= j { Some(&s[i..j]) } else { None }
        }
        _ => None,
    }
}

/// Metamorphic streams that state the property on the implementation alone (no model needed):
///  * ISOLATION: `pre; [render …]; tail` and `pre; tail` print the same caller-visible variables
///    (partials here do not touch counters, which are shared on purpose);
///  * ARGS-ONLY: the text a `render` writes is the same from two different callers when the
///    arguments are literals.
fn metamorphic(ctx: &mut Ctx) {
    let n = if ctx.tier_thorough { 60_000 } else { 3_000 };
    let mut g = Gen::new(ctx.seed ^ 0x15_0C08);
    const TAIL: &str = "\u{27e6}T\u{27e7}";
    const OPEN: &str = "\u{27e6}R\u{27e7}";
    const CLOSE: &str = "\u{27e6}/R\u{27e7}";
    for _ in 0..n {
        g.allow_errors = false;
        g.no_counters = true;
        g.guarded = true;
        g.allow_partials = true;
        g.dynamic_names = false;
        // partials p1..pk, each may call the earlier ones
        let np = 1 + g.rng.below(3);
        let mut partials: Vec<PartialDef> = Vec::new();
        let mut avail: Vec<String> = Vec::new();
        for i in 0..np {
            let name = format!("p{}", i + 1);
            g.partials = avail.clone();
            let body = g.body(if i == 0 { 1 } else { 2 }, 4);
            partials.push((name.clone(), Ok(body)));
            avail.push(name);
        }
        let callee = avail.last().unwrap().clone();
        // literal arguments only, so that the two callers pass the same values
        let nargs = g.rng.below(3);
        let args: Vec<(String, Expr)> = (0..nargs).map(|_| (g.name(), Expr::Lit(g.scalar()))).collect();
        let form = match g.rng.below(4) {
            0 => RForm::With(Expr::Lit(g.scalar()), g.name()),
            1 => RForm::For(RangeE::Counted(lit_i(1), lit_i(g.rng.range(0, 3))), g.name()),
            _ => RForm::Plain,
        };
        // for the `for … as` form over (1..n): the same thing as n separate `with j as` renders
        let unrolled: Option<Vec<Node>> = match &form {
            // (an argument named like the item is shadowed by the item in the `for` form but wins over
            // the `with` value, so the two are only comparable without such a collision)
            RForm::For(RangeE::Counted(Expr::Lit(lo), Expr::Lit(hi)), as_) if !args.iter().any(|(n, _)| n == as_) => {
                let (lo, hi) = (lo.as_scalar().and_then(|s| s.to_integer()).unwrap_or(1), hi.as_scalar().and_then(|s| s.to_integer()).unwrap_or(0));
                Some((lo..=hi).map(|j| Node::Render(lit_s(&callee), RForm::With(lit_i(j), as_.clone()), args.clone())).collect())
            }
            _ => None,
        };
        let call = Node::Render(lit_s(&callee), form, args);
        g.allow_partials = false;
        g.partials = vec![];
        let pre1 = g.body(2, 4);
        let pre2 = g.body(2, 4);
        g.no_counters = false;
        g.guarded = false;
        let data = g.data();
        let parser = build_parser(&partials, Policy::Eager);
        let mut t_tail = vec![text(TAIL)];
        t_tail.extend(tail());
        let with_call = |pre: &Vec<Node>| -> Vec<Node> {
            let mut t = pre.clone();
            t.push(text(OPEN));
            t.push(call.clone());
            t.push(text(CLOSE));
            t.extend(t_tail.clone());
            t
        };
        let a = with_call(&pre1);
        let mut b = pre1.clone();
        b.extend(t_tail.clone());
        let c = with_call(&pre2);
        // a third caller: the same tag inside a loop (inside two nested loops) of the caller
        let mut c2 = pre2.clone();
        {
            let inner = vec![text(OPEN), call.clone(), text(CLOSE)];
            let l1 = Node::For { x: "zq".into(), rng: RangeE::Counted(lit_i(1), lit_i(1)), limit: None, offset: None, rev: false, body: inner, els: None };
            let l2 = if g.rng.chance(1, 2) { Node::For { x: "zr".into(), rng: RangeE::Counted(lit_i(7), lit_i(7)), limit: None, offset: None, rev: false, body: vec![l1], els: None } } else { l1 };
            c2.push(l2);
            c2.extend(t_tail.clone());
        }
        let oc2 = render_text(&parser, &src_tmpl(&c2), &data);
        let oa = render_text(&parser, &src_tmpl(&a), &data);
        let ob = render_text(&parser, &src_tmpl(&b), &data);
        let oc = render_text(&parser, &src_tmpl(&c), &data);
        // DYN-NAME: one tag executed with a different name each time == the literal tags in a row
        let seq: Vec<String> = (0..(2 + g.rng.below(2))).map(|_| g.rng.pick(&avail).clone()).collect();
        // (an INCLUDED partial sees the caller's `forloop`, which only the dynamic variant has: partials
        // that look at it are compared through `render` only)
        let looks_at_loop = partials.iter().any(|(_, b)| matches!(b, Ok(b) if src_tmpl(b).contains("forloop")));
        let use_include = !looks_at_loop && g.rng.chance(1, 2);
        let mk = |name: Expr| if use_include { Node::Include(name, vec![]) } else { Node::Render(name, RForm::Plain, vec![]) };
        let mut dyn_t = pre1.clone();
        dyn_t.push(text(OPEN));
        dyn_t.push(Node::For { x: "pn".into(), rng: RangeE::Arr(var("pnames")), limit: None, offset: None, rev: false, body: vec![mk(var("pn"))], els: None });
        dyn_t.push(text(CLOSE));
        let mut lit_t = pre1.clone();
        lit_t.push(text(OPEN));
        for n in &seq {
            lit_t.push(mk(lit_s(n)));
        }
        lit_t.push(text(CLOSE));
        let mut data_dyn = data.clone();
        data_dyn.insert("pnames".into(), Value::Array(seq.iter().map(|n| Value::scalar(n.clone())).collect()));
        let o_dyn = render_text(&parser, &src_tmpl(&dyn_t), &data_dyn);
        let o_lit = render_text(&parser, &src_tmpl(&lit_t), &data_dyn);
        // STANDALONE: what a `render` with literal arguments writes is what the partial writes when it is
        // rendered as a template of its own over exactly those arguments (nothing else is in scope)
        if let Node::Render(_, RForm::Plain, rargs) = &call {
            let mut own = Object::new();
            for (k, e) in rargs {
                if let Expr::Lit(v) = e {
                    own.insert(k.clone().into(), v.clone());
                }
            }
            if let Some((_, Ok(body))) = partials.iter().find(|(n, _)| *n == callee) {
                let alone = render_text(&parser, &src_tmpl(body), &own);
                let mut just_call = vec![text(OPEN), call.clone(), text(CLOSE)];
                just_call.extend(Vec::<Node>::new());
                let o_call = render_text(&parser, &src_tmpl(&just_call), &data);
                if let (Obs::Ok(x), Some(y)) = (&alone, between(&o_call, OPEN, CLOSE)) {
                    if x != y {
                        ctx.emit(render_case("c08", "STANDALONE", &just_call, &data, &partials, &o_call));
                        continue;
                    }
                }
            }
        }
        // NAME-SCOPE: the name expression is evaluated in the CALLER's scope — an argument keyed like the
        // name variable binds only inside the partial and cannot redirect the tag
        let other = avail[0].clone();
        let mk2 = |name: Expr| if use_include { Node::Include(name, vec![("pn2".into(), lit_s(&other))]) } else { Node::Render(name, RForm::Plain, vec![("pn2".into(), lit_s(&other))]) };
        let mut ns_dyn = pre1.clone();
        ns_dyn.push(text(OPEN));
        ns_dyn.push(mk2(var("pn2")));
        ns_dyn.push(text(CLOSE));
        let mut ns_lit = pre1.clone();
        ns_lit.push(text(OPEN));
        ns_lit.push(mk2(lit_s(&callee)));
        ns_lit.push(text(CLOSE));
        data_dyn.insert("pn2".into(), Value::scalar(callee.clone()));
        let o_ns_dyn = render_text(&parser, &src_tmpl(&ns_dyn), &data_dyn);
        let o_ns_lit = render_text(&parser, &src_tmpl(&ns_lit), &data_dyn);
        if let (Some(x), Some(y)) = (between(&o_ns_dyn, OPEN, CLOSE), between(&o_ns_lit, OPEN, CLOSE)) {
            if x != y {
                ctx.emit(render_case("c08", "NAME-SCOPE", &ns_dyn, &data_dyn, &partials, &o_ns_dyn));
                continue;
            }
        }
        let mut kind = "meta".to_string();
        if let (Some(x), Some(y)) = (between(&o_dyn, OPEN, CLOSE), between(&o_lit, OPEN, CLOSE)) {
            if x != y {
                kind = "DYN-NAME".into();
            }
        }
        if kind == "DYN-NAME" {
            // report the dynamic template itself
            ctx.emit(render_case("c08", &kind, &dyn_t, &data_dyn, &partials, &o_dyn));
            continue;
        }
        // (the `for … as` form gives the partial a `forloop`, the `with` form does not: partials that look
        // at it — or at the `parentloop` of their own loops — legitimately tell the two apart)
        if let Some(u) = unrolled.filter(|_| !looks_at_loop) {
            let mut d = pre1.clone();
            d.push(text(OPEN));
            d.extend(u);
            d.push(text(CLOSE));
            d.extend(t_tail.clone());
            let od = render_text(&parser, &src_tmpl(&d), &data);
            if let (Some(x), Some(y)) = (between(&oa, OPEN, CLOSE), between(&od, OPEN, CLOSE)) {
                if x != y {
                    kind = "FOR-AS".into();
                }
            }
        }
        if let (Some(x), Some(y)) = (after(&oa, TAIL), after(&ob, TAIL)) {
            if x != y {
                kind = "ISOLATION".into();
            }
        }
        if kind == "meta" {
            if let (Some(x), Some(y)) = (between(&oa, OPEN, CLOSE), between(&oc, OPEN, CLOSE)) {
                if x != y {
                    kind = "ARGS-ONLY".into();
                }
            }
        }
        if kind == "meta" {
            if let (Some(x), Some(y)) = (between(&oa, OPEN, CLOSE), between(&oc2, OPEN, CLOSE)) {
                if x != y {
                    // report the caller with the loop: that is where the rendered text differs
                    ctx.emit(render_case("c08", "ARGS-ONLY", &c2, &data, &partials, &oc2));
                    continue;
                }
            }
        }
        ctx.emit(render_case("c08", &kind, &a, &data, &partials, &oa));
    }
}

/// REBIND: a partial that re-binds one of its arguments (render) or a caller's name (include) has
/// re-bound it completely — a member only the old value had is gone, for printing reads and for the
/// soft reads of `if` alike.
fn rebind_law(ctx: &mut Ctx) {
    let probe = |name: &str| -> Vec<Node> {
        vec![
            text("["), out(var(name)), text("]"),
            Node::Cond { c: Cond::Exist(path(name, &["x"])), mode: true, thn: vec![text("OLD")], els: Some(vec![text("rebound")]), elsif: false },
            Node::Cond { c: Cond::Exist(Expr::Var(name.into(), vec![lit_s("x")])), mode: false, thn: vec![text("!")], els: Some(vec![text("OLD2")]), elsif: false },
        ]
    };
    let mut p_assign = vec![Node::Assign("a".into(), lit_s("s"), vec![])];
    p_assign.extend(probe("a"));
    let mut p_capture = vec![Node::Capture("a".into(), vec![text("s")])];
    p_capture.extend(probe("a"));
    let partials: Vec<PartialDef> = vec![
        ("pa".into(), Ok(p_assign)),
        ("pc".into(), Ok(p_capture)),
        ("q".into(), Ok(vec![Node::Assign("a".into(), lit_s("s"), vec![])])),
        ("show".into(), Ok(vec![text("<"), out(var("v")), text(">")])),
    ];
    let parser = build_parser(&partials, Policy::Eager);
    let mut obj = Object::new();
    obj.insert("x".into(), Value::scalar(1i64));
    let mut data = Object::new();
    data.insert("obj".into(), Value::Object(obj.clone()));
    data.insert("a".into(), Value::Object(obj.clone()));
    data.insert("objs".into(), Value::Array(vec![Value::Object(obj.clone()), Value::Object(obj)]));
    const M: &str = "\u{27e6}B\u{27e7}";
    for pn in ["pa", "pc"] {
        let cases: Vec<(Vec<Node>, &str)> = vec![
            (vec![text(M), Node::Render(lit_s(pn), RForm::Plain, vec![("a".into(), var("obj"))])], "[s]rebound!"),
            (vec![text(M), Node::Render(lit_s(pn), RForm::With(var("obj"), "a".into()), vec![])], "[s]rebound!"),
            (vec![text(M), Node::Render(lit_s(pn), RForm::For(RangeE::Arr(var("objs")), "a".into()), vec![])], "[s]rebound![s]rebound!"),
            (vec![text(M), Node::Include(lit_s(pn), vec![])], "[s]rebound!"),
        ];
        for (t, want) in cases {
            let obs = render_text(&parser, &src_tmpl(&t), &data);
            let ok = matches!(after(&obs, M), Some(x) if x == want);
            ctx.emit(render_case("c08", if ok { "law" } else { "REBIND" }, &t, &data, &partials, &obs));
        }
    }
    // the caller after an include that re-bound its name
    let mut t = vec![Node::Include(lit_s("q"), vec![]), text(M)];
    t.extend(probe("a"));
    let obs = render_text(&parser, &src_tmpl(&t), &data);
    let ok = matches!(after(&obs, M), Some(x) if x == "[s]rebound!");
    ctx.emit(render_case("c08", if ok { "law" } else { "REBIND" }, &t, &data, &partials, &obs));
    // … and an argument expression evaluated after it: the member is gone, so the tag fails
    let t = vec![Node::Include(lit_s("q"), vec![]), Node::Render(lit_s("show"), RForm::Plain, vec![("v".into(), path("a", &["x"]))])];
    let obs = render_text(&parser, &src_tmpl(&t), &data);
    let ok = matches!(obs, Obs::Err(_));
    ctx.emit(render_case("c08", if ok { "law" } else { "REBIND" }, &t, &data, &partials, &obs));
}

pub fn run(ctx: &mut Ctx) {
    rebind_law(ctx);
    metamorphic(ctx);
    let n = if ctx.tier_thorough { 300_000 } else { 10_000 };
    let mut g = Gen::new(ctx.seed ^ 0xC08);
    for i in 0..n {
        g.allow_errors = i % 3 == 0;
        let sc = scenario(&mut g);
        let parser = build_parser(&sc.partials, Policy::Eager);
        let obs = render_text(&parser, &src_tmpl(&sc.main), &sc.data);
        ctx.emit(render_case("render", "scenario", &sc.main, &sc.data, &sc.partials, &obs));
    }
}
