//! C11: value equality and ordering are coherent and construction-independent.
//!
//! Pool of ~80 values (the property's quantifier text).  Every value is a *recipe* that is realised
//! afresh for every use, so each multi-key object is a new `HashMap` with its own iteration order;
//! the protocol transmits each instance in its own iteration order.
//!
//!  * `pair-…`  : ALL ordered pairs, both argument orders on the same two instances, through
//!                `Value`, `ValueViewCmp`, `ValueCow` (Owned/Borrowed, all four mixes), `ValueCow == Value`,
//!                `Value == ValueViewCmp`, `ScalarCow`, `Value == i64/f64/bool/&str`;
//!  * `indep-…` : pairs involving a multi-key object built k times independently — the answers must agree;
//!  * `state-…` : `query_state` of every pool value;
//!  * `tpl-…`   : every ordered pair through `if == != < <= > >=`, `case/when`, `contains`, `uniq`, `sort`;
//!  * `tri-…`   : triples (quick: a random sample; thorough: all);
//!  * random recipes beyond the pool (arrays/objects of pool atoms, up to 6 keys, nested two deep).
use crate::proto::{value_tokens, xs};
use crate::rng::Rng;
use crate::run::{build_parser, panic_msg, Obs, Policy};
use crate::Ctx;
use liquid_core::model::{Date, DateTime, Object, State, Value, ValueCow, ValueView, ValueViewCmp};
use std::cmp::Ordering;
use std::panic::{catch_unwind, AssertUnwindSafe};

#[derive(Clone, Debug)]
pub enum R {
    Nil,
    Bool(bool),
    Int(i64),
    Flt(u64),
    Str(&'static str),
    Date(i32, u8, u8),
    Dt(&'static str),
    St(State),
    Arr(Vec<R>),
    Obj(Vec<(&'static str, R)>),
}

fn f(x: f64) -> R {
    R::Flt(x.to_bits())
}

impl R {
    /// a fresh instance; `salt` rotates the insertion order of object entries
    pub fn realize(&self, salt: usize) -> Value {
        match self {
            R::Nil => Value::Nil,
            R::Bool(b) => Value::scalar(*b),
            R::Int(i) => Value::scalar(*i),
            R::Flt(b) => Value::scalar(f64::from_bits(*b)),
            R::Str(s) => Value::scalar(s.to_string()),
            R::Date(y, m, d) => Value::scalar(Date::from_ymd(*y, *m, *d)),
            R::Dt(s) => Value::scalar(DateTime::from_str(s).expect("pool datetime parses")),
            R::St(s) => Value::State(*s),
            R::Arr(xs) => Value::Array(xs.iter().map(|x| x.realize(salt)).collect()),
            R::Obj(kvs) => {
                let mut o = Object::new();
                let n = kvs.len();
                for i in 0..n {
                    let (k, v) = &kvs[(i + salt) % n];
                    o.insert((*k).into(), v.realize(salt / 2 + i));
                }
                Value::Object(o)
            }
        }
    }
    /// a fresh instance whose transmitted form differs from `avoid` when possible: two equal
    /// multi-key objects are deliberately compared in *different* iteration orders (hash seeds are
    /// per-process random, so this also makes a failing case reproduce on replay)
    pub fn realize_distinct(&self, salt: usize, avoid: &str) -> Value {
        let mut v = self.realize(salt);
        if self.multi_key() {
            for t in 1..16 {
                if value_tokens(&v) != avoid {
                    break;
                }
                v = self.realize(salt + t);
            }
        }
        v
    }
    fn class(&self) -> &'static str {
        match self {
            R::Nil => "nil",
            R::Bool(_) => "bool",
            R::Int(_) => "int",
            R::Flt(_) => "flt",
            R::Str(_) => "str",
            R::Date(..) => "date",
            R::Dt(_) => "dt",
            R::St(State::Truthy) | R::St(State::DefaultValue) => "marker",
            R::St(_) => "empty",
            R::Arr(_) => "arr",
            R::Obj(_) => "obj",
        }
    }
    fn multi_key(&self) -> bool {
        match self {
            R::Arr(xs) => xs.iter().any(|x| x.multi_key()),
            R::Obj(kvs) => kvs.len() > 1 || kvs.iter().any(|(_, v)| v.multi_key()),
            _ => false,
        }
    }
}

pub fn pool() -> Vec<R> {
    use R::*;
    let six = |last: i64| {
        Obj(vec![("a", Int(1)), ("b", Int(2)), ("c", Int(3)), ("d", Int(4)), ("e", Int(5)), ("f", Int(last))])
    };
    vec![
        Nil,
        Bool(true),
        Bool(false),
        // integers
        Int(0),
        Int(1),
        Int(-1),
        Int(2),
        Int(1 << 53),
        Int((1 << 53) + 1),
        Int(-(1 << 53)),
        Int(-(1 << 53) - 1),
        Int(i64::MAX),
        Int(i64::MIN),
        // floats
        f(0.0),
        f(-0.0),
        f(0.5),
        f(1.0),
        f(-1.0),
        f(2.0),
        f(9007199254740992.0),
        f(-9007199254740992.0),
        f(9223372036854775808.0),
        f(f64::INFINITY),
        f(f64::NEG_INFINITY),
        f(f64::NAN),
        // strings
        Str(""),
        Str(" "),
        Str("\t\n"),
        Str("1"),
        Str("1.0"),
        Str("true"),
        Str("false"),
        Str("nil"),
        Str("a"),
        Str("A"),
        Str("ab"),
        Str("é"),
        Str("日本"),
        // dates / date-times (the same instant in different offsets; local day differs)
        Date(2020, 1, 1),
        Date(2020, 1, 2),
        Dt("2020-01-01 00:00:00 +0000"),
        Dt("2020-01-01 02:00:00 +0200"),
        Dt("2019-12-31 23:00:00 -0100"),
        Dt("2020-01-01 12:00:00 +0000"),
        Dt("2020-01-01 23:00:00 -1200"),
        Dt("2020-01-03 00:00:00 +1400"),
        Dt("2020-01-01 00:00:00.5 +0000"),
        // markers
        St(State::Empty),
        St(State::Blank),
        St(State::Truthy),
        St(State::DefaultValue),
        // arrays
        Arr(vec![]),
        Arr(vec![Int(1)]),
        Arr(vec![f(1.0)]),
        Arr(vec![Int(1), Int(2)]),
        Arr(vec![Int(2), Int(1)]),
        Arr(vec![Nil]),
        Arr(vec![Bool(true)]),
        Arr(vec![Arr(vec![])]),
        Arr(vec![Arr(vec![Int(1)])]),
        Arr(vec![Str("a"), Arr(vec![Int(1), Obj(vec![("k", Int(1))])])]),
        Arr(vec![Obj(vec![("p", Int(1)), ("q", Int(2)), ("r", Int(3))])]),
        Arr(vec![f(f64::NAN)]),
        Arr(vec![St(State::Truthy)]),
        // objects
        Obj(vec![]),
        Obj(vec![("a", Int(1))]),
        Obj(vec![("a", f(1.0))]),
        Obj(vec![("a", Int(2))]),
        Obj(vec![("b", Int(1))]),
        Obj(vec![("a", Nil)]),
        Obj(vec![("a", Arr(vec![]))]),
        Obj(vec![("a", Int(1)), ("b", Int(2))]),
        Obj(vec![("a", Int(1)), ("b", Int(3))]),
        Obj(vec![("a", Int(1)), ("c", Int(2))]),
        six(6),
        six(7),
        Obj(vec![("a", Int(1)), ("b", Int(2)), ("c", Int(3)), ("d", Int(4)), ("e", Int(5)), ("g", Int(6))]),
        Obj(vec![
            ("o", Obj(vec![("x", Int(1)), ("y", Int(2)), ("z", Int(3))])),
            ("l", Arr(vec![Obj(vec![("p", Int(1)), ("q", Int(2))])])),
        ]),
        Obj(vec![
            ("o", Obj(vec![("x", Int(1)), ("y", Int(2)), ("z", Int(4))])),
            ("l", Arr(vec![Obj(vec![("p", Int(1)), ("q", Int(2))])])),
        ]),
    ]
}

fn b(x: bool) -> char {
    if x {
        '1'
    } else {
        '0'
    }
}

fn ord_s(o: Option<Ordering>) -> &'static str {
    match o {
        Some(Ordering::Less) => "lt",
        Some(Ordering::Equal) => "eq",
        Some(Ordering::Greater) => "gt",
        None => "none",
    }
}

#[allow(clippy::eq_op, clippy::neg_cmp_op_on_partial_ord)]
fn full<T: PartialEq + PartialOrd + ?Sized>(name: &str, x: &T, y: &T) -> String {
    format!(
        "{}:{}{}:{}:{}{}{}{}",
        name,
        b(x == y),
        b(x != y),
        ord_s(x.partial_cmp(y)),
        b(x < y),
        b(x <= y),
        b(x > y),
        b(x >= y)
    )
}

fn eq_only<A: PartialEq<B> + ?Sized, B: ?Sized>(name: &str, x: &A, y: &B) -> String {
    format!("{}:{}{}", name, b(x == y), b(x != y))
}

/// every public route to `value_eq` / `value_cmp` for the ordered pair (x, y)
fn observe_all(x: &Value, y: &Value) -> Vec<String> {
    let mut o = vec![full("value", x, y)];
    let (cx, cy) = (ValueViewCmp::new(x.as_view()), ValueViewCmp::new(y.as_view()));
    o.push(full("viewcmp", &cx, &cy));
    // the trait objects reached through `&Value` rather than `Value::as_view`
    let (dx, dy) = (ValueViewCmp::new(x), ValueViewCmp::new(y));
    o.push(full("viewcmp-ref", &dx, &dy));
    let (ox, oy) = (ValueCow::Owned(x.clone()), ValueCow::Owned(y.clone()));
    let (bx, by) = (ValueCow::Borrowed(x), ValueCow::Borrowed(y));
    let (fx, fy): (ValueCow<'_>, ValueCow<'_>) = (x.into(), y.into());
    o.push(eq_only("cow-oo", &ox, &oy));
    o.push(eq_only("cow-bb", &bx, &by));
    o.push(eq_only("cow-ob", &ox, &by));
    o.push(eq_only("cow-bo", &bx, &oy));
    o.push(eq_only("cow-from", &fx, &fy));
    o.push(eq_only("cow-value", &ox, y));
    o.push(eq_only("cowb-value", &bx, y));
    o.push(eq_only("value-viewcmp", x, &cy));
    o.push(eq_only("cow-viewcmp", &bx, &cy));
    if let (Some(sx), Some(sy)) = (x.as_scalar(), y.as_scalar()) {
        o.push(full("scalarcow", &sx, &sy));
    }
    if let Some(sy) = y.as_scalar() {
        match sy.type_name() {
            "whole number" => o.push(eq_only("value-i64", x, &sy.to_integer().unwrap())),
            "fractional number" => o.push(eq_only("value-f64", x, &sy.to_float().unwrap())),
            "boolean" => o.push(eq_only("value-bool", x, &sy.to_bool().unwrap())),
            "string" => o.push(eq_only("value-str", x, sy.to_kstr().as_str())),
            "date time" => o.push(eq_only("value-datetime", x, &sy.to_date_time().unwrap())),
            "date" => o.push(eq_only("value-date", x, &sy.to_date().unwrap())),
            _ => {}
        }
    }
    o
}

fn guarded<Fn: FnOnce() -> String>(g: Fn) -> String {
    match catch_unwind(AssertUnwindSafe(g)) {
        Ok(s) => s,
        Err(e) => {
            let _ = panic_msg(e);
            "PANIC".into()
        }
    }
}

fn pair_line(ra: &R, rb: &R, salt: usize) -> String {
    let x = ra.realize(salt);
    let y = rb.realize_distinct(salt + 3, &value_tokens(&x));
    let obs = guarded(|| {
        let f = observe_all(&x, &y);
        let r = observe_all(&y, &x);
        format!("F {} {} R {} {}", f.len(), f.join(" "), r.len(), r.join(" "))
    });
    format!("c11 pair-{}:{} {} {} => {}", ra.class(), rb.class(), value_tokens(&x), value_tokens(&y), obs)
}

/// two objects over the same keys that ENUMERATE IDENTICALLY: the second is an edited copy of the
/// first (same hasher state, every entry overwritten in place).  The outcome must still be the one
/// the values determine, not the one the shared enumeration order suggests.
fn copy_edit_line(name: &str, ka: &[(&'static str, R)], kb: &[(&'static str, R)], salt: usize) -> String {
    let x = R::Obj(ka.to_vec()).realize(salt);
    let mut y = x.clone();
    if let Value::Object(o) = &mut y {
        for (k, v) in kb {
            o.insert((*k).into(), v.realize(salt));
        }
    }
    let obs = guarded(|| {
        let f = observe_all(&x, &y);
        let r = observe_all(&y, &x);
        format!("F {} {} R {} {}", f.len(), f.join(" "), r.len(), r.join(" "))
    });
    // the same two values built independently of each other (different hasher states, different
    // insertion orders): the outcome depends on the values only, so it must be the same
    let x2 = R::Obj(ka.to_vec()).realize(salt + 5);
    let y2 = R::Obj(kb.to_vec()).realize_distinct(salt + 8, &value_tokens(&x2));
    let obs2 = guarded(|| {
        let f = observe_all(&x2, &y2);
        let r = observe_all(&y2, &x2);
        format!("F {} {} R {} {}", f.len(), f.join(" "), r.len(), r.join(" "))
    });
    let tag = if obs == obs2 { "copyedit" } else { "BUILD-DEPENDENT" };
    format!("c11 pair-{}:{}:obj:obj {} {} => {}", tag, name, value_tokens(&x), value_tokens(&y), obs)
}

fn indep_line(ra: &R, rb: &R, k: usize, salt: usize) -> String {
    let mut vals = Vec::new();
    let mut obs = Vec::new();
    let mut prev = String::new();
    for i in 0..k {
        // consecutive builds differ in iteration order whenever the hash seeds allow it
        let x = ra.realize_distinct(salt + i, &prev);
        let y = rb.realize_distinct(salt + 2 * i + 1, &value_tokens(&x));
        prev = value_tokens(&x);
        obs.push(guarded(|| full("value", &x, &y)));
        vals.push(format!("{} {}", value_tokens(&x), value_tokens(&y)));
    }
    format!("c11 indep-{}:{} {} {} => {}", ra.class(), rb.class(), k, vals.join(" "), obs.join(" "))
}

fn tri_line(ra: &R, rb: &R, rc: &R, salt: usize) -> String {
    let x = ra.realize(salt);
    let y = rb.realize_distinct(salt + 1, &value_tokens(&x));
    let z = rc.realize_distinct(salt + 2, &value_tokens(&y));
    let obs = guarded(|| format!("{} {} {}", full("value", &x, &y), full("value", &y, &z), full("value", &x, &z)));
    let same = match (ra, rb, rc) {
        (R::Int(_), R::Int(_), R::Int(_))
        | (R::Flt(_), R::Flt(_), R::Flt(_))
        | (R::Bool(_), R::Bool(_), R::Bool(_))
        | (R::Str(_), R::Str(_), R::Str(_))
        | (R::Date(..), R::Date(..), R::Date(..))
        | (R::Dt(_), R::Dt(_), R::Dt(_)) => "samekind",
        _ => "mixed",
    };
    format!("c11 tri-{} {} {} {} => {}", same, value_tokens(&x), value_tokens(&y), value_tokens(&z), obs)
}

fn state_line(ra: &R) -> String {
    let x = ra.realize(0);
    let obs = guarded(|| {
        [State::Truthy, State::DefaultValue, State::Empty, State::Blank].iter().map(|s| b(x.query_state(*s))).collect()
    });
    format!("c11 state-{} {} => {}", ra.class(), value_tokens(&x), obs)
}

pub const TEMPLATE: &str = concat!(
    "{% if a == b %}1{% else %}0{% endif %}{% if a != b %}1{% else %}0{% endif %}",
    "{% if a < b %}1{% else %}0{% endif %}{% if a <= b %}1{% else %}0{% endif %}",
    "{% if a > b %}1{% else %}0{% endif %}{% if a >= b %}1{% else %}0{% endif %}",
    "|{% case a %}{% when b %}1{% else %}0{% endcase %}",
    "|{% if la contains b %}1{% else %}0{% endif %}",
    "|{{ ab | uniq | size }}",
    "|{% assign s = xs | sort: \"k\" %}{{ s[0].tag }}{{ s[1].tag }}"
);

fn tpl_line(parser: &liquid::Parser, ra: &R, rb: &R, salt: usize) -> String {
    let mut data = Object::new();
    data.insert("a".into(), ra.realize(salt));
    data.insert("b".into(), rb.realize(salt + 1));
    data.insert("la".into(), Value::Array(vec![ra.realize(salt + 2)]));
    data.insert("ab".into(), Value::Array(vec![ra.realize(salt + 3), rb.realize(salt + 4)]));
    let mut e0 = Object::new();
    e0.insert("k".into(), ra.realize(salt + 5));
    e0.insert("tag".into(), Value::scalar("A"));
    let mut e1 = Object::new();
    e1.insert("k".into(), rb.realize(salt + 6));
    e1.insert("tag".into(), Value::scalar("B"));
    data.insert("xs".into(), Value::Array(vec![Value::Object(e0), Value::Object(e1)]));
    let obs: Obs = crate::run::render_text(parser, TEMPLATE, &data);
    let mut d = Vec::new();
    crate::proto::enc_view(&data, &mut d);
    format!("c11 tpl-{}:{} {} => {} #{}", ra.class(), rb.class(), d.join(" "), obs.tokens(), xs(TEMPLATE))
}

/// random recipe built from pool atoms: arrays ≤ 3, objects ≤ 6 keys, nested two deep
fn gen(rng: &mut Rng, atoms: &[R], depth: usize) -> R {
    const KEYS: &[&str] = &["a", "b", "c", "d", "e", "f", "g", "h", "é", ""];
    let c = rng.below(if depth == 0 { 6 } else { 10 });
    match c {
        0..=5 => rng.pick(atoms).clone(),
        6 | 7 => {
            let n = rng.below(4);
            R::Arr((0..n).map(|_| gen(rng, atoms, depth - 1)).collect())
        }
        _ => {
            let n = rng.below(7);
            let start = rng.below(KEYS.len());
            R::Obj((0..n).map(|i| (KEYS[(start + i) % KEYS.len()], gen(rng, atoms, depth - 1))).collect())
        }
    }
}

/// a near copy: same recipe with one leaf changed (so equal-looking objects that differ are compared)
fn mutate(rng: &mut Rng, r: &R, atoms: &[R]) -> R {
    match r {
        R::Arr(xs) if !xs.is_empty() => {
            let i = rng.below(xs.len());
            let mut ys = xs.clone();
            ys[i] = mutate(rng, &xs[i], atoms);
            R::Arr(ys)
        }
        R::Obj(kvs) if !kvs.is_empty() => {
            let i = rng.below(kvs.len());
            let mut ys = kvs.clone();
            ys[i].1 = mutate(rng, &kvs[i].1, atoms);
            R::Obj(ys)
        }
        _ => rng.pick(atoms).clone(),
    }
}

/// the witnesses of the `_counterexample` theorems of Props/C11.lean, replayed on the real code
/// (the driver answers `ok` iff the implementation does what the theorem says the model does)
fn witnesses() -> Vec<(&'static str, R, R)> {
    use R::*;
    let ab = || Obj(vec![("a", Int(1)), ("b", Int(2))]);
    vec![
        ("symm_truthy", St(State::Truthy), St(State::Empty)),
        ("refl_nan", f(f64::NAN), f(f64::NAN)),
        ("refl_truthy", St(State::Truthy), St(State::Truthy)),
        ("nil_false", Nil, Bool(false)),
        ("nil_true", Nil, Bool(true)),
        ("equal_unordered", Bool(true), Int(1)),
        ("int_float_above_2p53_a", Int((1 << 53) + 1), f(9007199254740992.0)),
        ("int_float_above_2p53_b", f(9007199254740992.0), Int(1 << 53)),
        ("int_float_above_2p53_c", Int((1 << 53) + 1), Int(1 << 53)),
        ("eq_trans_bool_a", Int(1), Bool(true)),
        ("eq_trans_bool_b", Bool(true), Int(2)),
        ("eq_trans_bool_c", Int(1), Int(2)),
        ("lt_trans_date_a", Dt("2020-01-01 23:00:00 -1200"), Date(2020, 1, 2)),
        ("lt_trans_date_b", Date(2020, 1, 2), Dt("2020-01-03 00:00:00 +1400")),
        ("lt_trans_date_c", Dt("2020-01-01 23:00:00 -1200"), Dt("2020-01-03 00:00:00 +1400")),
        ("perm_cmp_old", ab(), ab()),
        // floats one unit in the last place apart are different numbers: unequal and ordered
        ("adjacent_sum", f(0.1 + 0.2), f(0.3)),
        ("adjacent_one", f(1.0), f(1.0 + f64::EPSILON)),
        ("adjacent_big", f(435.0), f(435.00000000000006)),
        ("adjacent_neg", f(-3.3), f(-3.3000000000000003)),
        ("adjacent_tiny", f(1e-300), f(1.0000000000000002e-300)),
        ("adjacent_in_array", Arr(vec![f(0.1 + 0.2)]), Arr(vec![f(0.3)])),
        ("adjacent_in_object", Obj(vec![("k", f(0.1 + 0.2))]), Obj(vec![("k", f(0.3))])),
    ]
}

pub fn run(ctx: &mut Ctx) {
    let pool = pool();
    let n = pool.len();
    let parser = build_parser(&[], Policy::Eager);
    // --- witnesses of the counterexample theorems ---
    for (name, ra, rb) in witnesses() {
        for salt in 0..4 {
            ctx.emit(pair_line(&ra, &rb, salt).replacen("c11 pair-", &format!("c11 pair-witness:{}:", name), 1));
        }
        ctx.emit(indep_line(&ra, &rb, 8, 1).replacen("c11 indep-", &format!("c11 indep-witness:{}:", name), 1));
    }
    // --- edited copies: same keys, same enumeration order, entries pulling in opposite directions ---
    {
        use R::*;
        let sets: Vec<(&'static str, Vec<(&'static str, R)>, Vec<(&'static str, R)>)> = vec![
            ("two", vec![("p", Int(1)), ("q", Int(2))], vec![("p", Int(2)), ("q", Int(1))]),
            ("three", vec![("a", Int(1)), ("b", Int(5)), ("c", Int(3))], vec![("a", Int(2)), ("b", Int(4)), ("c", Int(0))]),
            ("str", vec![("k1", Str("b")), ("k2", Str("a")), ("k3", Str("c")), ("k4", Str("d"))], vec![("k1", Str("a")), ("k2", Str("b")), ("k3", Str("d")), ("k4", Str("c"))]),
            ("incomparable", vec![("p", Int(1)), ("q", Str("a"))], vec![("p", Str("a")), ("q", Int(2))]),
            ("one-differs", vec![("p", Int(1)), ("q", Int(2))], vec![("p", Int(1)), ("q", Int(3))]),
            ("nested", vec![("o", Obj(vec![("x", Int(1)), ("y", Int(2))])), ("z", Int(9))], vec![("o", Obj(vec![("x", Int(2)), ("y", Int(1))])), ("z", Int(0))]),
        ];
        for (name, ka, kb) in &sets {
            for salt in 0..12 {
                ctx.emit(copy_edit_line(name, ka, kb, salt));
                ctx.emit(copy_edit_line(name, kb, ka, salt + 100));
            }
        }
    }
    // --- query_state of every pool value ---
    for r in &pool {
        ctx.emit(state_line(r));
    }
    // --- ALL ordered pairs, Rust API ---
    for i in 0..n {
        for j in 0..n {
            ctx.emit(pair_line(&pool[i], &pool[j], i + j));
        }
    }
    // --- construction independence: k independent builds of every pair involving a multi-key object ---
    let k = if ctx.tier_thorough { 8 } else { 4 };
    for i in 0..n {
        for j in 0..n {
            if pool[i].multi_key() || pool[j].multi_key() {
                ctx.emit(indep_line(&pool[i], &pool[j], k, i * 7 + j));
            }
        }
    }
    // --- ALL ordered pairs through templates ---
    for i in 0..n {
        for j in 0..n {
            ctx.emit(tpl_line(&parser, &pool[i], &pool[j], i * 3 + j));
        }
    }
    // --- random recipes beyond the pool ---
    let mut rng = Rng::new(ctx.seed);
    let atoms: Vec<R> = pool.iter().filter(|r| !matches!(r, R::Arr(_) | R::Obj(_))).cloned().collect();
    let count = if ctx.tier_thorough { 40_000 } else { 4_000 };
    for c in 0..count {
        let ra = gen(&mut rng, &atoms, 2);
        let rb = match rng.below(4) {
            0 => ra.clone(),
            1 => mutate(&mut rng, &ra, &atoms),
            _ => gen(&mut rng, &atoms, 2),
        };
        let salt = rng.below(64);
        match c % 4 {
            0 | 1 => ctx.emit(pair_line(&ra, &rb, salt).replacen("c11 pair-", "c11 pair-rand-", 1)),
            2 => ctx.emit(indep_line(&ra, &rb, 3, salt).replacen("c11 indep-", "c11 indep-rand-", 1)),
            _ => ctx.emit(tpl_line(&parser, &ra, &rb, salt).replacen("c11 tpl-", "c11 tpl-rand-", 1)),
        }
    }
    // --- triples ---
    if ctx.tier_thorough {
        for i in 0..n {
            for j in 0..n {
                for l in 0..n {
                    ctx.emit(tri_line(&pool[i], &pool[j], &pool[l], i + j + l));
                }
            }
        }
    } else {
        // all triples of scalars of one kind are few: do them all; then a random sample of the rest
        for i in 0..n {
            for j in 0..n {
                for l in 0..n {
                    let same = pool[i].class() == pool[j].class() && pool[j].class() == pool[l].class();
                    if same && !matches!(pool[i], R::Arr(_) | R::Obj(_)) {
                        ctx.emit(tri_line(&pool[i], &pool[j], &pool[l], i + j + l));
                    }
                }
            }
        }
        for _ in 0..30_000 {
            let (i, j, l) = (rng.below(n), rng.below(n), rng.below(n));
            ctx.emit(tri_line(&pool[i], &pool[j], &pool[l], i + j + l));
        }
    }
}
