//! C17: dates — default print/parse round-trip, chronological eq/cmp, strftime directives.
//!
//! Case lines (all through the real crates, under `catch_unwind`):
//!   c17  <kind> <D ts> <cal> x<fmt> => <filter obs>          `ts | date: fmt` via the stdlib filter
//!   c17p <kind> x<text> => none | some <D>                   `DateTime::from_str(text)`
//!   c17r <kind> <D ts> => none | some <D>                    `DateTime::from_str(ts.to_string())`
//!   c17c <kind> <D a> <D b> <ia> <ib> => <eq> <cmp>          scalar `==` and `partial_cmp`
//!   c17z <kind> <D ts> x<fmt> I<tz> => <filter obs>          `ts | date_in_tz: fmt, tz` (extra)
//!   c17d <kind> x<text> => none | some <Y>                   `Date::from_str(text)` (date.rs)
//! `<cal>` = `cal:<unix ns>:<year>:<month>:<day>:<ordinal>:<weekday Mon=0>:<%U>:<%W>:<iso year>:<iso week>:
//! <hour>:<minute>:<second>:<nanosecond>` as computed by the `time` crate, so that the driver can
//! compare its independent calendar with the crate's on every case.
use crate::filters::{self, FObs};
use crate::proto::{enc_scalar, value_tokens, xs};
use crate::rng::Rng;
use crate::run::panic_msg;
use crate::Ctx;
use liquid_core::model::{DateTime, ScalarCow, Value};
use std::panic::{catch_unwind, AssertUnwindSafe};
use time::{Date, Month, OffsetDateTime, Time, UtcOffset};

fn month(m: u8) -> Month {
    Month::try_from(m).unwrap()
}

/// local civil time + offset → the crate's value
fn civil(y: i32, m: u8, d: u8, h: u8, mi: u8, s: u8, ns: u32, off: i32) -> Option<OffsetDateTime> {
    let date = Date::from_calendar_date(y, month(m), d).ok()?;
    let time = Time::from_hms_nano(h, mi, s, ns).ok()?;
    let off = UtcOffset::from_whole_seconds(off).ok()?;
    Some(date.with_time(time).assume_offset(off))
}

fn dt(o: OffsetDateTime) -> DateTime {
    let mut d = DateTime::default();
    *d = o;
    d
}

fn dtok(d: &DateTime) -> String {
    let mut o = Vec::new();
    enc_scalar(&ScalarCow::new(*d), &mut o);
    o.join(" ")
}

fn cal(o: &OffsetDateTime) -> String {
    let (iy, iw, _) = o.to_iso_week_date();
    format!(
        "cal:{}:{}:{}:{}:{}:{}:{}:{}:{}:{}:{}:{}:{}:{}",
        o.unix_timestamp_nanos(),
        o.year(),
        o.month() as u8,
        o.day(),
        o.ordinal(),
        o.weekday().number_days_from_monday(),
        o.sunday_based_week(),
        o.monday_based_week(),
        iy,
        iw,
        o.hour(),
        o.minute(),
        o.second(),
        o.nanosecond()
    )
}

struct Gen<'a> {
    ctx: &'a mut Ctx,
    lang: liquid_core::parser::Language,
}

impl<'a> Gen<'a> {
    fn fmt_case(&mut self, kind: &str, o: OffsetDateTime, fmt: &str) {
        let d = dt(o);
        let obs = filters::apply(&self.lang, "date", &Value::scalar(d), &[Value::scalar(fmt.to_owned())]);
        self.ctx.emit(format!("c17 {} {} {} {} => {}", kind, dtok(&d), cal(&o), xs(fmt), obs.tokens()));
    }
    fn tz_case(&mut self, kind: &str, o: OffsetDateTime, fmt: &str, tz: i64) {
        let d = dt(o);
        let obs = filters::apply(&self.lang, "date_in_tz", &Value::scalar(d), &[Value::scalar(fmt.to_owned()), Value::scalar(tz)]);
        self.ctx.emit(format!("c17z {} {} {} I{} => {}", kind, dtok(&d), xs(fmt), tz, obs.tokens()));
    }
    fn parse_case(&mut self, kind: &str, text: &str) {
        let r = catch_unwind(AssertUnwindSafe(|| DateTime::from_str(text)));
        let obs = match r {
            Ok(Some(d)) => format!("some {}", dtok(&d)),
            Ok(None) => "none -".into(),
            Err(e) => {
                let _ = panic_msg(e);
                "PANIC -".into()
            }
        };
        self.ctx.emit(format!("c17p {} {} => {}", kind, xs(text), obs));
    }
    fn rt_case(&mut self, kind: &str, o: OffsetDateTime) {
        let d = dt(o);
        let r = catch_unwind(AssertUnwindSafe(|| DateTime::from_str(&d.to_string())));
        let obs = match r {
            Ok(Some(d)) => format!("some {}", dtok(&d)),
            Ok(None) => "none -".into(),
            Err(_) => "PANIC -".into(),
        };
        self.ctx.emit(format!("c17r {} {} => {}", kind, dtok(&d), obs));
    }
    fn date_case(&mut self, kind: &str, text: &str) {
        let r = catch_unwind(AssertUnwindSafe(|| liquid_core::model::Date::from_str(text)));
        let obs = match r {
            Ok(Some(d)) => {
                let mut o = Vec::new();
                enc_scalar(&ScalarCow::new(d), &mut o);
                format!("some {}", o.join(" "))
            }
            Ok(None) => "none -".into(),
            Err(_) => "PANIC -".into(),
        };
        self.ctx.emit(format!("c17d {} {} => {}", kind, xs(text), obs));
    }
    /// `ia`, `ib`: the generator's own instants (unix ns), not read back from the crate
    fn cmp_case(&mut self, kind: &str, ia: i128, oa: i32, ib: i128, ob: i32) {
        let mk = |i: i128, o: i32| OffsetDateTime::from_unix_timestamp_nanos(i).unwrap().to_offset(UtcOffset::from_whole_seconds(o).unwrap());
        let (a, b) = (dt(mk(ia, oa)), dt(mk(ib, ob)));
        let r = catch_unwind(AssertUnwindSafe(|| {
            let (sa, sb) = (ScalarCow::new(a), ScalarCow::new(b));
            let eq = sa == sb;
            let veq = Value::scalar(a) == Value::scalar(b);
            let cmp = match sa.partial_cmp(&sb) {
                Some(std::cmp::Ordering::Less) => "lt",
                Some(std::cmp::Ordering::Equal) => "eq",
                Some(std::cmp::Ordering::Greater) => "gt",
                None => "none",
            };
            format!("{}{} {}", eq as u8, veq as u8, cmp)
        }));
        let obs = r.unwrap_or_else(|_| "PANIC -".into());
        self.ctx.emit(format!("c17c {} {} {} {} {} => {}", kind, dtok(&a), dtok(&b), ia, ib, obs));
    }
}

pub const DIRECTIVES: &str = "YCymdewuUWGgVjHkIlMSsbhBaApPFvRDxTXrcntLNzZ%";
pub const FLAGS: &[&str] = &["", "-", "_", "0", "^", "#"];
pub const WIDTHS: &[&str] = &["", "1", "3", "6", "12"];
const ALL_FMT: &str = "%Y|%C|%y|%m|%d|%e|%j|%U|%W|%G|%g|%V|%u|%w|%a|%A|%b|%B|%H|%k|%I|%l|%p|%P|%M|%S|%L|%N|%s|%z|%:z|%::z|%F|%v|%c|%D|%T|%r|%R";

/// offsets -12:00 ..= +14:00, whole hours plus the :30 / :45 ones in use, plus the sub-hour negatives
fn offsets() -> Vec<i32> {
    let mut v: Vec<i32> = (-12..=14).map(|h| h * 3600).collect();
    for (h, m) in [(-9, 30), (-3, 30), (-2, 30), (3, 30), (4, 30), (5, 30), (5, 45), (6, 30), (8, 45), (9, 30), (10, 30), (12, 45), (13, 45)] {
        let s: i32 = if h < 0 { -1 } else { 1 };
        v.push(h * 3600 + s * m * 60);
    }
    v.push(-1800);
    v.push(-2700);
    v.push(1800);
    v
}

const SUBSEC: &[u32] = &[0, 5_000_000, 1_000, 1, 999_999_999, 666_777_888, 120_000_000, 50];

/// (month, day) boundary days of year `y`
fn boundary_days(y: i32) -> Vec<(u8, u8)> {
    let mut v: Vec<(u8, u8)> = (1..=7).map(|d| (1u8, d)).collect();
    v.push((2, 28));
    if time::util::is_leap_year(y) {
        v.push((2, 29));
    }
    v.push((3, 1));
    v.extend((25..=31).map(|d| (12u8, d)));
    v
}

fn years() -> Vec<i32> {
    let mut v: Vec<i32> = vec![1, 1000, 9999];
    v.extend(1970..=2040);
    v
}

fn random_format(rng: &mut Rng) -> String {
    let mut s = String::new();
    let n = 1 + rng.below(6);
    for _ in 0..n {
        match rng.below(10) {
            0 => s.push_str(*rng.pick(&["a", " ", "-", ":", "é", "T", "日", "/", "0", "z"])),
            1 => s.push_str("%%"),
            2 => {
                // unknown / odd
                s.push('%');
                s.push_str(*rng.pick(&["q", "é", "J", "i", "f", "K", "E", "O", "Eq", "OY", "Ey", ":", "::", ":z", "::z", ":::z", ":a", "::é", "日", "!", " ", "1", "€", "\u{663}", "\u{ff15}d", "\u{bd}"]));
            }
            _ => {
                s.push('%');
                let nf = rng.below(3);
                for _ in 0..nf {
                    s.push_str(*rng.pick(&["-", "_", "0", "^", "#"]));
                }
                if rng.chance(1, 2) {
                    s.push_str(*rng.pick(&["1", "2", "3", "4", "5", "6", "9", "10", "12", "15", "24"]));
                }
                if rng.chance(1, 12) {
                    s.push(*rng.pick(&['E', 'O']));
                }
                let ds: Vec<char> = DIRECTIVES.chars().collect();
                if rng.chance(1, 10) {
                    s.push_str(*rng.pick(&[":z", "::z"]));
                } else {
                    s.push(*rng.pick(&ds));
                }
            }
        }
    }
    if rng.chance(1, 25) {
        s.push_str(*rng.pick(&["%", "%-", "%5", "%E", "%_10", "%0"]));
    }
    s
}

pub fn run(ctx: &mut Ctx) {
    let thorough = ctx.tier_thorough;
    let mut rng = Rng::new(ctx.seed);
    let lang = filters::language(true);
    let mut g = Gen { ctx, lang };
    let offs = offsets();
    let yrs = years();

    // --- corpus: the two defects known at the pinned commit + the offset-sign one found here ---
    let five_ms = civil(2022, 1, 3, 7, 56, 37, 5_000_000, 6 * 3600).unwrap();
    // field widths at and beyond what the formatter accepts (u16::MAX), and beyond usize
    for f in ["%65535N", "%65536N", "%65539z", "%_65539z", "%070000Y", "%99999999999999999999d", "%-65536j", "%^65536a", "%65536%", "%:65536z"] {
        g.fmt_case("corpus-width", five_ms, f);
        g.tz_case("corpus-width", five_ms, f, 5);
    }
    g.fmt_case("corpus-d7", five_ms, "%é");
    g.fmt_case("corpus-d7", five_ms, "x%-5日y");
    g.fmt_case("corpus-d7", five_ms, "%:é");
    g.fmt_case("corpus-d7", five_ms, "%::é");
    g.fmt_case("corpus-d7", five_ms, "%Eé");
    g.fmt_case("corpus-d16", five_ms, "%L");
    g.fmt_case("corpus-d16", five_ms, "%N");
    g.fmt_case("corpus-d16", five_ms, "%6N");
    g.fmt_case("corpus-d16", five_ms, "%12N");
    g.fmt_case("corpus-d17", civil(2022, 1, 3, 7, 56, 37, 0, -1800).unwrap(), "%_z");
    g.fmt_case("corpus-d17", civil(2022, 1, 3, 7, 56, 37, 0, -1800).unwrap(), "%_:z");

    // --- A. calendar sweep: every boundary day, all calendar directives at once ---
    let mut k = 0usize;
    for &y in &yrs {
        for (m, d) in boundary_days(y) {
            let reps = if thorough { 6 } else { 2 };
            for _ in 0..reps {
                let h = (k % 24) as u8;
                let off = offs[k % offs.len()];
                let ns = SUBSEC[k % SUBSEC.len()];
                k += 7;
                if let Some(o) = civil(y, m, d, h, (k % 60) as u8, ((k / 3) % 60) as u8, ns, off) {
                    g.fmt_case("sweep", o, ALL_FMT);
                    g.rt_case("roundtrip", o);
                }
            }
        }
    }
    // every hour x every offset
    for h in 0..24u8 {
        for &off in &offs {
            let o = civil(2024, 2, 29, h, 30, 15, 1_000, off).unwrap();
            g.fmt_case("hours", o, "%H|%k|%I|%l|%p|%P|%r|%z|%:z|%::z|%Z|%s|%F|%j|%a");
            g.rt_case("roundtrip", o);
        }
    }
    // years outside the property's list that the crate can represent (negative, 0)
    for &(y, m, d) in &[(0, 1, 1), (0, 2, 29), (0, 12, 31), (-1, 12, 31), (-20, 6, 13), (-9999, 1, 1), (-4, 2, 29), (-100, 3, 1), (9999, 12, 31)] {
        if let Some(o) = civil(y, m, d, 17, 56, 37, 666_777_888, -(7 * 3600 + 25 * 60)) {
            g.fmt_case("neg-year", o, ALL_FMT);
            g.fmt_case("neg-year", o, "%_Y|%4Y|%_4Y|%-Y|%8Y|%_8Y|%3C|%_3C|%5y|%_5y|%-y|%10F|%010F|%12D|%^c|%10s|%_12s|%-s");
            g.rt_case("roundtrip-neg", o);
        }
    }

    // --- B. the directive grid: directive x flag x width over selected timestamps ---
    let mut stamps: Vec<OffsetDateTime> = vec![
        five_ms,
        civil(1970, 1, 1, 0, 0, 0, 0, 0).unwrap(),
        civil(1, 1, 1, 0, 0, 0, 1, 0).unwrap(),
        civil(1000, 12, 31, 23, 59, 59, 1_000, -12 * 3600).unwrap(),
        civil(9999, 12, 31, 23, 59, 59, 999_999_999, 14 * 3600).unwrap(),
        civil(2000, 2, 29, 12, 0, 0, 0, 5 * 3600 + 45 * 60).unwrap(),
        civil(2021, 1, 3, 11, 5, 9, 50, -(3 * 3600 + 30 * 60)).unwrap(),
        civil(2020, 12, 28, 13, 0, 0, 120_000_000, -1800).unwrap(),
        civil(2010, 1, 1, 0, 0, 1, 5_000_000, 9 * 3600 + 30 * 60).unwrap(),
        civil(1999, 12, 31, 23, 0, 0, 0, -5 * 3600).unwrap(),
    ];
    if thorough {
        for &y in &yrs {
            for (i, (m, d)) in boundary_days(y).into_iter().enumerate() {
                let j = (y as usize) * 31 + i;
                if let Some(o) = civil(y, m, d, (j % 24) as u8, (j % 60) as u8, (j * 7 % 60) as u8, SUBSEC[j % SUBSEC.len()], offs[j % offs.len()]) {
                    stamps.push(o);
                }
            }
        }
    } else {
        for i in 0..50usize {
            let y = yrs[(i * 5) % yrs.len()];
            let bd = boundary_days(y);
            let (m, d) = bd[(i * 3) % bd.len()];
            stamps.push(civil(y, m, d, (i * 5 % 24) as u8, (i * 13 % 60) as u8, (i * 17 % 60) as u8, SUBSEC[i % SUBSEC.len()], offs[(i * 11) % offs.len()]).unwrap());
        }
    }
    let mut grid: Vec<(String, String)> = Vec::new();
    for c in DIRECTIVES.chars() {
        for f in FLAGS {
            for w in WIDTHS {
                grid.push((format!("dir:{}", if c == '%' { "pct".to_string() } else { c.to_string() }), format!("%{}{}{}", f, w, c)));
            }
        }
    }
    for cz in [":z", "::z"] {
        for f in FLAGS {
            for w in WIDTHS {
                grid.push(("dir:colon-z".into(), format!("%{}{}{}", f, w, cz)));
            }
        }
    }
    for o in stamps.iter() {
        for (kind, f) in grid.iter() {
            g.fmt_case(kind, *o, f);
        }
    }

    // several flags on one directive: the LAST of `_` / `0` decides the padding character, `-` switches
    // padding off wherever it stands -- every ordered pair and a few triples
    {
        let fl = ["-", "_", "0", "^", "#"];
        let mut combos: Vec<String> = Vec::new();
        for a in fl {
            for b in fl {
                combos.push(format!("{}{}", a, b));
            }
        }
        for t in ["0_0", "_0_", "-0_", "0_-", "0-_", "^0_", "0^_", "#_0", "00_", "__0"] {
            combos.push(t.to_string());
        }
        for ns in [5_000_000u32, 123_456_789] {
            if let Some(o) = civil(2022, 1, 3, 7, 6, 5, ns, 6 * 3600) {
                for c in &combos {
                    for d in ["d", "H", "M", "e", "k", "j", "y", "Y", "b", "a", "p", "T", "z", "s", "N"] {
                        for w in ["", "5", "10"] {
                            g.fmt_case("dir:flag-order", o, &format!("%{}{}{}", c, w, d));
                        }
                    }
                    g.fmt_case("dir:flag-order", o, &format!("%{}H:%{}M", c, c));
                }
            }
        }
    }
    // every width 1..=12 of the two fraction directives x fractions with leading zeros
    for ns in [0u32, 1, 99, 5_000_000, 50_000_000, 99_999_999, 100_000_000, 123_456_789, 9_000_000, 999_999_999, 10] {
        if let Some(o) = civil(2022, 1, 3, 7, 56, 37, ns, 6 * 3600) {
            for w in 1..=12 {
                for f in ["", "-", "0", "_"] {
                    g.fmt_case("dir:frac-width", o, &format!("%{}{}N", f, w));
                    g.fmt_case("dir:frac-width", o, &format!("%{}{}L", f, w));
                }
            }
        }
    }

    // --- C. unknown directives (every other ASCII char, non-ASCII), modifiers, malformed ---
    let o = five_ms;
    for b in 0x20u8..0x7f {
        let c = b as char;
        if !DIRECTIVES.contains(c) && !"-_0^#123456789EO:".contains(c) {
            g.fmt_case("unknown-ascii", o, &format!("%{}", c));
            g.fmt_case("unknown-ascii", o, &format!("a%-_5{}b%Y", c));
            g.fmt_case("unknown-ascii", o, &format!("%E{}", c));
        }
    }
    // (among them characters Unicode classes as numeric or as letters/digits of other scripts: none of
    // them is a width, a flag or a directive)
    for c in ['é', 'ß', '日', '€', '😀', '\u{80}', '\u{7ff}', '\u{800}', '\u{ffff}', '\u{10000}', '\u{a0}', '\u{663}', '\u{ff15}', '\u{bd}', '\u{b2}', '\u{2167}', '\u{ff0d}', '\u{ff3f}', '\u{3007}'] {
        for pre in ["%", "%-", "%_5", "%E", "%O", "%:", "%::", "%10:", "x%0"] {
            g.fmt_case("unknown-utf8", o, &format!("{}{}", pre, c));
            g.fmt_case("unknown-utf8", o, &format!("é{}{}%Y{}", pre, c, c));
        }
    }
    for c in DIRECTIVES.chars() {
        g.fmt_case("modifier", o, &format!("%E{}", c));
        g.fmt_case("modifier", o, &format!("%_6O{}", c));
    }
    for f in ["%EE", "%EO", "%OEy", "%E:z", "%E::z", "%:E", "%:", "%::", "%:::", "%:::z", "%:z", "%::z", "%10::", "%-:", "%:%", "%:%Y", "%::%Y", "%Ez", "%^#_0-Y", "%00005Y", "%0_Y", "%_0Y", "%-0Y", "%--Y"] {
        g.fmt_case("colon-mod", o, f);
    }
    for f in ["%", "X%", "%-", "%_", "%0", "%^", "%#", "%5", "%10", "%010", "%E", "%O", "%5E", "%-_0^#", "%Y%", "%%%", "%9", "%9E", "%18446744073709551615Q", "%18446744073709551616d", "%18446744073709551616", "%99999999999999999999999Y", "%1é", "", "plain text", "日本語"] {
        g.fmt_case("malformed", o, f);
    }
    for f in ["%Y-%m-%d %H:%M:%S %z", "%a, %d %b %Y %T %z", "%FT%T%:z", "%G-W%V-%u", "%Y%j", "%c", "%x %X", "%D %r", "%A %B %-d, %Y", "%s.%L", "%I:%M %p", "%e/%-m/%y", "%b %e %l:%M%P", "%v", "%R", "%n%t%%", "%10A|%-10A|%010A|%^10a|%#B"] {
        for st in stamps.iter().take(10) {
            g.fmt_case("composite", *st, f);
        }
    }

    // --- D. random concatenations over random instants (the crate's instant -> civil direction) ---
    let n_rand = if thorough { 400_000 } else { 20_000 };
    for _ in 0..n_rand {
        let secs = match rng.below(4) {
            0 => rng.range(-62135596800, 253402300799 - 15 * 3600), // years 1 ..= 9999
            1 => rng.range(0, 2240611200),                          // 1970 ..= 2040
            2 => rng.range(-377705116800 + 15 * 3600, -62135596800), // negative years
            _ => rng.range(1600000000, 1800000000),
        };
        let ns = *rng.pick(SUBSEC) as i128;
        let off = if rng.chance(1, 6) { rng.range(-14 * 3600, 14 * 3600) as i32 } else { *rng.pick(&offs) };
        let i = secs as i128 * 1_000_000_000 + ns;
        let o = match OffsetDateTime::from_unix_timestamp_nanos(i).ok().and_then(|x| x.checked_to_offset(UtcOffset::from_whole_seconds(off).unwrap())) {
            Some(o) => o,
            None => continue,
        };
        let f = random_format(&mut rng);
        g.fmt_case("random", o, &f);
        if rng.chance(1, 8) {
            g.rt_case(if off % 60 == 0 { "roundtrip" } else { "roundtrip-secoff" }, o);
        }
    }

    // --- E. parser: every accepted syntax, with / without offset, and near misses ---
    let months = ["January", "February", "March", "April", "May", "June", "July", "August", "September", "October", "November", "December"];
    let wdays = ["Mon", "Tue", "Wed", "Thu", "Fri", "Sat", "Sun"];
    let n_parse = if thorough { 30_000 } else { 3_000 };
    for i in 0..n_parse {
        let y = *rng.pick(&yrs);
        let bd = boundary_days(y);
        let (m, d) = if rng.chance(1, 2) { *rng.pick(&bd) } else { (1 + rng.below(12) as u8, 1 + rng.below(31) as u8) };
        let (h, mi, s) = (rng.below(25) as u8 % 24 + (rng.chance(1, 40) as u8) * 24, rng.below(60) as u8 + (rng.chance(1, 40) as u8) * 60, rng.below(60) as u8 + (rng.chance(1, 40) as u8) * 60);
        let off = *rng.pick(&offs);
        let offs_txt = match rng.below(5) {
            0 => String::new(),
            1 => format!(" {}{:02}{:02}", if off < 0 { '-' } else { '+' }, off.abs() / 3600, off.abs() / 60 % 60),
            2 => format!(" {}{:02}{:02}", if off < 0 { '-' } else { '+' }, off.abs() / 3600, off.abs() / 60 % 60),
            3 => (*rng.pick(&[" +2000", " +0960", " +1999", " -1900", " 0100", " +100", "+0100", " +01:00", " Z", " +0000 ", " -0000"])).to_string(),
            _ => format!(" {}{:02}{:02}", if off < 0 { '-' } else { '+' }, off.abs() / 3600, off.abs() / 60 % 60),
        };
        let sub = match rng.below(6) {
            0 => ".005".to_string(),
            1 => ".123456789".to_string(),
            2 => ".1234567891234".to_string(),
            3 => ".".to_string(),
            _ => String::new(),
        };
        let hms = format!("{:02}:{:02}:{:02}", h, mi, s);
        let mon = months[(m as usize - 1) % 12];
        let wd = wdays[rng.below(7)];
        let (kind, text) = match i % 8 {
            0 => ("syntax-default", format!("{:04}-{:02}-{:02} {}{}{}", y, m, d, hms, sub, offs_txt)),
            1 => ("syntax-day-month", format!("{:02} {} {:04} {}{}", d, mon, y, hms, offs_txt)),
            2 => ("syntax-day-mon", format!("{:02} {} {:04} {}{}", d, &mon[..3], y, hms, offs_txt)),
            3 => ("syntax-mdy", format!("{:02}/{:02}/{:04} {}{}", m, d, y, hms, offs_txt)),
            4 => ("syntax-dow-mon", format!("{} {} {} {} {:04}{}", wd, &mon[..3], d, hms, y, offs_txt)),
            5 => ("syntax-unix", format!("{}{}", *rng.pick(&["", "", "-", "+"]), rng.range(0, 300_000_000_000))),
            6 => ("syntax-signed-year", format!("{}{:04}-{:02}-{:02} {}{}", *rng.pick(&["-", "+"]), y, m, d, hms, offs_txt)),
            _ => {
                // near miss: mutate a well-formed default string
                let mut t: Vec<char> = format!("{:04}-{:02}-{:02} {}{}", y, m, d, hms, offs_txt).chars().collect();
                let p = rng.below(t.len());
                match rng.below(4) {
                    0 => {
                        t.remove(p);
                    }
                    1 => t[p] = *rng.pick(&['x', ' ', '9', '-', ':', 'é', '0']),
                    2 => t.insert(p, *rng.pick(&['1', ' ', '+', '٣'])),
                    _ => t.truncate(p),
                }
                ("syntax-mutated", t.into_iter().collect())
            }
        };
        g.parse_case(kind, &text);
    }
    for t in ["", " ", "aaaaa", "0", "1455616800", "-1455616800", "+5", "00000000000001", "99999999999999", "253402300799", "253402300800", "-377705116800", "-377705116801",
              "123456789012345", "9223372036854775807", "9223372036854775808", "-9223372036854775808", "1e5", "12 ", " 12", "2016-02-16", "2016-02-16 10:00", "2016-02-16T10:00:00",
              "2016-02-30 10:00:00", "2016-13-01 10:00:00", "2016-00-10 10:00:00", "2016-01-00 10:00:00", "2016-02-16 24:00:00", "2016-02-16 10:60:00", "2016-02-16 10:00:60",
              "2016-02-16 10:00:00 +2359", "2016-02-16 10:00:00 +1960", "2016-02-16 10:00:00 -0030", "2016-02-16 10:00:00 +0100 +0100", "16 february 2016 10:00:00", "16 Febr 2016 10:00:00",
              "Tue Feb 6 10:00:00 2016", "Tue Feb 06 10:00:00 2016", "Tue Feb 006 10:00:00 2016", "Mon Feb 16 10:00:00 2016 +0100", "tue Feb 16 10:00:00 2016", "2/16/2016 10:00:00",
              "02/16/16 10:00:00", "02016-02-16 10:00:00", "216-02-16 10:00:00", "2016-02-16 10:00:00.", "2016-02-16 10:00:00.5", "2016-02-16 10:00:00.000000001 -1200", "2016-02-16 10:00:00 +0100\n"] {
        g.parse_case("syntax-fixed", t);
    }

    // date.rs: the three `parse_date` syntaxes and the `Display` form
    for &y in &yrs {
        for (m, d) in boundary_days(y) {
            let mon = months[m as usize - 1];
            g.date_case("date-iso", &format!("{:04}-{:02}-{:02}", y, m, d));
            g.date_case("date-long", &format!("{:02} {} {:04}", d, mon, y));
            g.date_case("date-short", &format!("{:02} {} {:04}", d, &mon[..3], y));
        }
    }
    for t in ["", "aaaaa", "2022-02-30", "2022-13-01", "2022-3-02", "1 March 2022", "01 march 2022", "01 Mar 2022 ", "-0020-06-13", "+2022-03-02", "02 May 2022", "31 April 2022", "29 February 2023", "29 Feb 2024", "2022-03-02 10:00:00", "20220302"] {
        g.date_case("date-fixed", t);
    }

    // --- F. eq / cmp: chronological regardless of offset ---
    let n_cmp = if thorough { 40_000 } else { 4_000 };
    for _ in 0..n_cmp {
        let base = rng.range(-2_000_000_000, 4_000_000_000) as i128 * 1_000_000_000 + *rng.pick(SUBSEC) as i128;
        let (oa, ob) = (*rng.pick(&offs), *rng.pick(&offs));
        let delta: i128 = match rng.below(8) {
            0 | 1 => 0,
            2 => 1,
            3 => -1,
            4 => (ob - oa) as i128 * 1_000_000_000,      // same local clock reading
            5 => (oa - ob) as i128 * 1_000_000_000,
            6 => rng.range(-86_400, 86_400) as i128 * 1_000_000_000,
            _ => rng.range(-1_000_000, 1_000_000) as i128,
        };
        g.cmp_case("cmp", base, oa, base + delta, ob);
    }

    // --- G. date_in_tz (extra) ---
    for tz in [-26i64, -25, -12, -1, 0, 1, 5, 14, 25, 26, 100, 596523, 596524, -596524, 1193046, 4294967296, 4294967297, i64::MAX, i64::MIN] {
        for st in stamps.iter().take(4) {
            g.tz_case("tz", *st, "%Y-%m-%d %H:%M:%S %z", tz);
        }
    }
    g.tz_case("tz-range", civil(9999, 12, 31, 23, 0, 0, 0, 0).unwrap(), "%Y", 2);
    g.tz_case("tz-range", civil(-9999, 1, 1, 0, 30, 0, 0, 0).unwrap(), "%Y", -1);
    let _ = value_tokens;
    let _ = FObs::Panic;
}
