//! C18: runtime stack algebra.  Every operation sequence over {push plain d, push sandbox d,
//! push global, pop, assign-global k v, set-counter k v} is executed on the real frame types
//! (`StackFrame`, `SandboxedStackFrame`, `GlobalFrame` over `RuntimeBuilder::build()`); after every
//! operation the state is observed through try_get / get for every path of length 1..2, roots()
//! and the counters.  Frames borrow their parents, so the stack is built by recursion.
use crate::proto::{enc_view_sorted, hex, value_tokens};
use crate::rng::Rng;
use crate::Ctx;
use liquid_core::model::{Object, Scalar, Value};
use liquid_core::runtime::{GlobalFrame, Runtime, RuntimeBuilder, SandboxedStackFrame, StackFrame};
use std::panic::{catch_unwind, AssertUnwindSafe};

#[derive(Clone, Debug)]
enum Op {
    Plain(Object),
    Sandbox(Object),
    Global,
    Pop,
    SetGlobal(String, Value),
    SetIndex(String, Value),
}

const NAMES: [&str; 2] = ["a", "b"];

fn paths() -> Vec<Vec<Scalar>> {
    let mut ps = Vec::new();
    for a in NAMES {
        ps.push(vec![Scalar::new(a)]);
    }
    // root names no layer defines but that arrays / objects answer as synthetic indices
    for a in ["size", "first"] {
        ps.push(vec![Scalar::new(a)]);
    }
    for a in NAMES {
        for b in ["a", "b", "size"] {
            ps.push(vec![Scalar::new(a), Scalar::new(b)]);
        }
    }
    ps
}

fn observe(rt: &dyn Runtime, out: &mut Vec<String>) {
    out.push("@".into());
    for p in paths() {
        match rt.try_get(&p) {
            Some(v) => enc_view_sorted(v.as_view(), out),
            None => out.push("-".into()),
        }
        match rt.get(&p) {
            Ok(v) => {
                out.push("ok".into());
                enc_view_sorted(v.as_view(), out)
            }
            Err(e) => out.push(if e.to_string().is_empty() { "err-nomsg".into() } else { "err".into() }),
        }
    }
    let roots: Vec<String> = rt.roots().iter().map(|k| hex(k.as_str())).collect();
    out.push(format!("r{}", roots.join(",")));
    for k in NAMES {
        match rt.get_index(k) {
            Some(v) => enc_view_sorted(v.as_view(), out),
            None => out.push("-".into()),
        }
    }
}

/// run ops[i..] on `rt`; `Some(next)` when this level was ended by a `Pop` (continue below at
/// `next`), `None` when the operations are exhausted.
fn go(rt: &dyn Runtime, ops: &[Op], mut i: usize, out: &mut Vec<String>) -> Option<usize> {
    loop {
        observe(rt, out);
        if i >= ops.len() {
            return None;
        }
        match &ops[i] {
            Op::Plain(d) => {
                let f = StackFrame::new(rt, d);
                i = go(&f, ops, i + 1, out)?;
            }
            Op::Sandbox(d) => {
                let f = SandboxedStackFrame::new(rt, d);
                i = go(&f, ops, i + 1, out)?;
            }
            Op::Global => {
                let f = GlobalFrame::new(rt);
                i = go(&f, ops, i + 1, out)?;
            }
            Op::Pop => return Some(i + 1),
            Op::SetGlobal(k, v) => {
                rt.set_global(k.clone().into(), v.clone());
                i += 1;
            }
            Op::SetIndex(k, v) => {
                rt.set_index(k.clone().into(), v.clone());
                i += 1;
            }
        }
    }
}

fn maps() -> Vec<Object> {
    // all 9 maps over {a, b} with values in {absent, scalar, object}
    let vals = |tag: i64| -> [Option<Value>; 3] {
        let mut o = Object::new();
        o.insert("a".into(), Value::scalar(tag * 10));
        o.insert("size".into(), Value::scalar("own-size"));
        [None, Some(Value::scalar(tag)), Some(Value::Object(o))]
    };
    let mut ms = Vec::new();
    for va in vals(1) {
        for vb in vals(2) {
            let mut m = Object::new();
            if let Some(v) = va.clone() {
                m.insert("a".into(), v);
            }
            if let Some(v) = vb.clone() {
                m.insert("b".into(), v);
            }
            ms.push(m);
        }
    }
    // a name bound to nil is bound: it resolves (to nil), it is a root, it shadows
    for (a, b) in [(Some(Value::Nil), None), (Some(Value::Nil), Some(Value::scalar(2i64))), (None, Some(Value::Nil))] {
        let mut m = Object::new();
        if let Some(v) = a {
            m.insert("a".into(), v);
        }
        if let Some(v) = b {
            m.insert("b".into(), v);
        }
        ms.push(m);
    }
    ms
}

fn all_ops() -> Vec<Op> {
    let mut ops = Vec::new();
    for m in maps() {
        ops.push(Op::Plain(m.clone()));
        ops.push(Op::Sandbox(m));
    }
    ops.push(Op::Global);
    ops.push(Op::Pop);
    let mut o = Object::new();
    o.insert("b".into(), Value::scalar(6i64));
    for k in NAMES {
        for v in [Value::scalar(5i64), Value::Object(o.clone())] {
            ops.push(Op::SetGlobal(k.into(), v.clone()));
            ops.push(Op::SetIndex(k.into(), v));
        }
        // binding a name to nil is a binding too: it hides lower definitions
        ops.push(Op::SetGlobal(k.into(), Value::Nil));
        // values of another kind that compare equal to what lower layers hold (1 == 1.0, true == any scalar)
        for v in [Value::scalar(1.0f64), Value::scalar(2.0f64), Value::scalar(true)] {
            ops.push(Op::SetGlobal(k.into(), v));
        }
    }
    ops
}

fn enc_ops(ops: &[Op]) -> String {
    let mut o = vec![ops.len().to_string()];
    for op in ops {
        match op {
            Op::Plain(d) => {
                o.push("Pp".into());
                o.push(value_tokens(&Value::Object(d.clone())));
            }
            Op::Sandbox(d) => {
                o.push("Ps".into());
                o.push(value_tokens(&Value::Object(d.clone())));
            }
            Op::Global => o.push("Pg".into()),
            Op::Pop => o.push("Po".into()),
            Op::SetGlobal(k, v) => {
                o.push("Sg".into());
                o.push(format!("x{}", hex(k)));
                o.push(value_tokens(v));
            }
            Op::SetIndex(k, v) => {
                o.push("Si".into());
                o.push(format!("x{}", hex(k)));
                o.push(value_tokens(v));
            }
        }
    }
    o.join(" ")
}

fn valid(ops: &[Op]) -> bool {
    let mut depth = 0i32;
    for op in ops {
        match op {
            Op::Plain(_) | Op::Sandbox(_) | Op::Global => depth += 1,
            Op::Pop => {
                depth -= 1;
                if depth < 0 {
                    return false;
                }
            }
            _ => {}
        }
    }
    true
}

fn run_case(ctx: &mut Ctx, kind: &str, base: &Object, ops: &[Op]) {
    let r = catch_unwind(AssertUnwindSafe(|| {
        let mut out = Vec::new();
        let rt = RuntimeBuilder::new().set_globals(base).build();
        go(&rt, ops, 0, &mut out);
        out
    }));
    let obs = match r {
        Ok(o) => o.join(" "),
        Err(_) => "PANIC".into(),
    };
    ctx.emit(format!("stack {} {} {} => {}", kind, value_tokens(&Value::Object(base.clone())), enc_ops(ops), obs));
}

pub fn run(ctx: &mut Ctx) {
    let ops = all_ops();
    let mut base = Object::new();
    base.insert("b".into(), Value::scalar("base"));
    let max_len = if ctx.tier_thorough { 4 } else { 3 };
    // exhaustive: all valid sequences up to max_len
    let mut idx = vec![0usize; 0];
    fn rec(ctx: &mut Ctx, base: &Object, all: &[Op], cur: &mut Vec<Op>, idx: &mut Vec<usize>, max_len: usize) {
        if !cur.is_empty() {
            run_case(ctx, &format!("exh{}", cur.len()), base, cur);
        }
        if cur.len() == max_len {
            return;
        }
        for (j, op) in all.iter().enumerate() {
            cur.push(op.clone());
            if valid(cur) {
                idx.push(j);
                rec(ctx, base, all, cur, idx, max_len);
                idx.pop();
            }
            cur.pop();
        }
    }
    rec(ctx, &base, &ops, &mut Vec::new(), &mut idx, max_len);
    // random longer sequences (length 4..6), biased towards push/assign/pop mixes
    let mut rng = Rng::new(ctx.seed);
    let n = if ctx.tier_thorough { 300_000 } else { 20_000 };
    let mut made = 0;
    while made < n {
        let len = 4 + rng.below(3);
        let mut cur = Vec::new();
        for _ in 0..len {
            let op = match rng.below(10) {
                0..=2 => ops[rng.below(2 * maps().len())].clone(),
                3 => Op::Global,
                4 | 5 => Op::Pop,
                _ => { let first_set = 2 * maps().len() + 2; ops[first_set + rng.below(ops.len() - first_set)].clone() }
            };
            cur.push(op);
        }
        if valid(&cur) {
            let b = if rng.chance(1, 2) { base.clone() } else { let ms = maps(); ms[rng.below(ms.len())].clone() };
            run_case(ctx, &format!("rand{}", len), &b, &cur);
            made += 1;
        }
    }
}
