//! Template AST mirroring `LiquidModel/Model/Ast.lean`: printed as Liquid source for the real
//! parser and as prefix tokens for the Lean driver, from the same tree.
use crate::proto::{value_tokens, xs};
use liquid_core::model::{Value, ValueView};

#[derive(Clone, Debug)]
pub enum Expr {
    Lit(Value),
    Var(String, Vec<Expr>),
}

#[derive(Clone, Debug)]
pub struct FCall {
    pub name: String,
    pub args: Vec<Expr>,
}

#[derive(Clone, Copy, Debug, PartialEq)]
pub enum CmpOp {
    Eq,
    Ne,
    Lt,
    Gt,
    Le,
    Ge,
    Contains,
}

#[derive(Clone, Debug)]
pub enum Cond {
    Bin(Expr, CmpOp, Expr),
    Exist(Expr),
    And(Box<Cond>, Box<Cond>),
    Or(Box<Cond>, Box<Cond>),
    /// flat source form `atom (and|or atom)*`; grouping is left to the parser under test (and to
    /// the Lean model of `parse_condition`)
    Flat(Vec<FlatTok>),
}

#[derive(Clone, Debug)]
pub enum FlatTok {
    Atom(Cond),
    And,
    Or,
}

#[derive(Clone, Debug)]
pub enum RangeE {
    Arr(Expr),
    Counted(Expr, Expr),
}

#[derive(Clone, Debug)]
pub enum RForm {
    Plain,
    With(Expr, String),
    For(RangeE, String),
}

#[derive(Clone, Debug)]
pub enum Node {
    Text(String),
    Output(Expr, Vec<FCall>),
    Assign(String, Expr, Vec<FCall>),
    Capture(String, Vec<Node>),
    Incr(String),
    Decr(String),
    Break,
    Continue,
    /// `mode=true`: if; `false`: unless.  An `elsif` chain is `els = Some([Cond …])` printed as elsif
    /// when `elsif` is set.
    Cond { c: Cond, mode: bool, thn: Vec<Node>, els: Option<Vec<Node>>, elsif: bool },
    Case { target: Expr, arms: Vec<(Vec<Expr>, Vec<Node>)>, els: Option<Vec<Node>>, comma: bool },
    For { x: String, rng: RangeE, limit: Option<Expr>, offset: Option<Expr>, rev: bool, body: Vec<Node>, els: Option<Vec<Node>> },
    TableRow { x: String, rng: RangeE, cols: Option<Expr>, limit: Option<Expr>, offset: Option<Expr>, body: Vec<Node> },
    Cycle { name: Option<String>, vals: Vec<Expr> },
    IfChanged(Vec<Node>),
    Include(Expr, Vec<(String, Expr)>),
    Render(Expr, RForm, Vec<(String, Expr)>),
    Raw(String),
    Comment(String),
}

pub fn lit_i(i: i64) -> Expr {
    Expr::Lit(Value::scalar(i))
}
pub fn lit_s(s: &str) -> Expr {
    Expr::Lit(Value::scalar(s.to_owned()))
}
pub fn var(root: &str) -> Expr {
    Expr::Var(root.to_owned(), vec![])
}
pub fn path(root: &str, keys: &[&str]) -> Expr {
    Expr::Var(root.to_owned(), keys.iter().map(|k| lit_s(k)).collect())
}
pub fn text(s: &str) -> Node {
    Node::Text(s.to_owned())
}
pub fn out(e: Expr) -> Node {
    Node::Output(e, vec![])
}

// ---------- Liquid source ----------

fn is_ident(s: &str) -> bool {
    let mut cs = s.chars();
    match cs.next() {
        Some(c) if c.is_ascii_alphabetic() || c == '_' => {}
        _ => return false,
    }
    cs.all(|c| c.is_ascii_alphanumeric() || c == '_' || c == '-')
}

pub fn src_value(v: &Value) -> String {
    match v {
        Value::Nil => "nil".into(),
        Value::State(liquid_core::model::State::Empty) => "empty".into(),
        Value::State(liquid_core::model::State::Blank) => "blank".into(),
        Value::Scalar(s) => match s.type_name() {
            "string" => {
                let t = s.to_kstr();
                if t.contains('"') {
                    format!("'{}'", t)
                } else {
                    format!("\"{}\"", t)
                }
            }
            "fractional number" => {
                let f = s.to_float().unwrap();
                let t = format!("{}", f);
                if t.contains('.') {
                    t
                } else {
                    format!("{}.0", t)
                }
            }
            _ => s.to_kstr().to_string(),
        },
        _ => panic!("literal {:?} has no source form", v),
    }
}

impl Expr {
    pub fn src(&self) -> String {
        match self {
            Expr::Lit(v) => src_value(v),
            Expr::Var(root, idx) => {
                let mut s = root.clone();
                for i in idx {
                    match i {
                        Expr::Lit(Value::Scalar(k)) if k.type_name() == "string" && is_ident(&k.to_kstr()) => {
                            s.push('.');
                            s.push_str(&k.to_kstr());
                        }
                        other => {
                            s.push('[');
                            s.push_str(&other.src());
                            s.push(']');
                        }
                    }
                }
                s
            }
        }
    }
    pub fn enc(&self, o: &mut Vec<String>) {
        match self {
            Expr::Lit(v) => {
                o.push("l".into());
                o.push(value_tokens(v));
            }
            Expr::Var(root, idx) => {
                o.push(format!("v{}", crate::proto::hex(root)));
                o.push(idx.len().to_string());
                for i in idx {
                    i.enc(o);
                }
            }
        }
    }
}

fn src_filters(fs: &[FCall]) -> String {
    let mut s = String::new();
    for f in fs {
        s.push_str(" | ");
        s.push_str(&f.name);
        if !f.args.is_empty() {
            s.push_str(": ");
            s.push_str(&f.args.iter().map(|a| a.src()).collect::<Vec<_>>().join(", "));
        }
    }
    s
}
fn enc_filters(fs: &[FCall], o: &mut Vec<String>) {
    o.push(fs.len().to_string());
    for f in fs {
        o.push(xs(&f.name));
        o.push(f.args.len().to_string());
        for a in &f.args {
            a.enc(o);
        }
    }
}

impl CmpOp {
    pub fn src(&self) -> &'static str {
        match self {
            CmpOp::Eq => "==",
            CmpOp::Ne => "!=",
            CmpOp::Lt => "<",
            CmpOp::Gt => ">",
            CmpOp::Le => "<=",
            CmpOp::Ge => ">=",
            CmpOp::Contains => "contains",
        }
    }
    pub fn tok(&self) -> &'static str {
        match self {
            CmpOp::Eq => "eq",
            CmpOp::Ne => "ne",
            CmpOp::Lt => "lt",
            CmpOp::Gt => "gt",
            CmpOp::Le => "le",
            CmpOp::Ge => "ge",
            CmpOp::Contains => "ct",
        }
    }
}

impl Cond {
    pub fn src(&self) -> String {
        match self {
            Cond::Bin(l, op, r) => format!("{} {} {}", l.src(), op.src(), r.src()),
            Cond::Exist(e) => e.src(),
            Cond::And(a, b) => format!("{} and {}", a.src(), b.src()),
            Cond::Or(a, b) => format!("{} or {}", a.src(), b.src()),
            Cond::Flat(ts) => ts
                .iter()
                .map(|t| match t {
                    FlatTok::Atom(c) => c.src(),
                    FlatTok::And => "and".into(),
                    FlatTok::Or => "or".into(),
                })
                .collect::<Vec<_>>()
                .join(" "),
        }
    }
    pub fn enc(&self, o: &mut Vec<String>) {
        match self {
            Cond::Bin(l, op, r) => {
                o.push("Cb".into());
                l.enc(o);
                o.push(op.tok().into());
                r.enc(o);
            }
            Cond::Exist(e) => {
                o.push("Ce".into());
                e.enc(o);
            }
            Cond::And(a, b) => {
                o.push("Ca".into());
                a.enc(o);
                b.enc(o);
            }
            Cond::Or(a, b) => {
                o.push("Co".into());
                a.enc(o);
                b.enc(o);
            }
            Cond::Flat(ts) => {
                o.push("Cf".into());
                o.push(ts.len().to_string());
                for t in ts {
                    match t {
                        FlatTok::Atom(c) => {
                            o.push("a".into());
                            c.enc(o);
                        }
                        FlatTok::And => o.push("&".into()),
                        FlatTok::Or => o.push("|".into()),
                    }
                }
            }
        }
    }
}

impl RangeE {
    pub fn src(&self) -> String {
        match self {
            RangeE::Arr(e) => e.src(),
            RangeE::Counted(a, b) => format!("({}..{})", a.src(), b.src()),
        }
    }
    pub fn enc(&self, o: &mut Vec<String>) {
        match self {
            RangeE::Arr(e) => {
                o.push("Ra".into());
                e.enc(o);
            }
            RangeE::Counted(a, b) => {
                o.push("Rc".into());
                a.enc(o);
                b.enc(o);
            }
        }
    }
}

fn enc_opt_e(e: &Option<Expr>, o: &mut Vec<String>) {
    match e {
        None => o.push("-".into()),
        Some(e) => {
            o.push("+".into());
            e.enc(o);
        }
    }
}
fn enc_opt_t(t: &Option<Vec<Node>>, o: &mut Vec<String>) {
    match t {
        None => o.push("-".into()),
        Some(t) => {
            o.push("+".into());
            enc_tmpl(t, o);
        }
    }
}
pub fn enc_tmpl(t: &[Node], o: &mut Vec<String>) {
    o.push(t.len().to_string());
    for n in t {
        n.enc(o);
    }
}
pub fn src_tmpl(t: &[Node]) -> String {
    t.iter().map(|n| n.src()).collect()
}
fn src_kvs(kvs: &[(String, Expr)]) -> String {
    kvs.iter().map(|(k, e)| format!("{}: {}", k, e.src())).collect::<Vec<_>>().join(", ")
}
fn enc_kvs(kvs: &[(String, Expr)], o: &mut Vec<String>) {
    o.push(kvs.len().to_string());
    for (k, e) in kvs {
        o.push(xs(k));
        e.enc(o);
    }
}

impl Node {
    pub fn src(&self) -> String {
        match self {
            Node::Text(s) => s.clone(),
            Node::Output(e, fs) => format!("{{{{ {}{} }}}}", e.src(), src_filters(fs)),
            Node::Assign(x, e, fs) => format!("{{% assign {} = {}{} %}}", x, e.src(), src_filters(fs)),
            Node::Capture(x, b) => format!("{{% capture {} %}}{}{{% endcapture %}}", x, src_tmpl(b)),
            Node::Incr(x) => format!("{{% increment {} %}}", x),
            Node::Decr(x) => format!("{{% decrement {} %}}", x),
            Node::Break => "{% break %}".into(),
            Node::Continue => "{% continue %}".into(),
            Node::Cond { c, mode, thn, els, elsif } => {
                let mut s = format!("{{% {} {} %}}{}", if *mode { "if" } else { "unless" }, c.src(), src_tmpl(thn));
                src_else(&mut s, els, *elsif);
                s.push_str(if *mode { "{% endif %}" } else { "{% endunless %}" });
                s
            }
            Node::Case { target, arms, els, comma } => {
                let mut s = format!("{{% case {} %}}", target.src());
                for (vals, body) in arms {
                    let sep = if *comma { ", " } else { " or " };
                    s.push_str(&format!(
                        "{{% when {} %}}{}",
                        vals.iter().map(|v| v.src()).collect::<Vec<_>>().join(sep),
                        src_tmpl(body)
                    ));
                }
                if let Some(e) = els {
                    s.push_str("{% else %}");
                    s.push_str(&src_tmpl(e));
                }
                s.push_str("{% endcase %}");
                s
            }
            Node::For { x, rng, limit, offset, rev, body, els } => {
                let mut s = format!("{{% for {} in {}", x, rng.src());
                if let Some(l) = limit {
                    s.push_str(&format!(" limit:{}", l.src()));
                }
                if let Some(o) = offset {
                    s.push_str(&format!(" offset:{}", o.src()));
                }
                if *rev {
                    s.push_str(" reversed");
                }
                s.push_str(" %}");
                s.push_str(&src_tmpl(body));
                if let Some(e) = els {
                    s.push_str("{% else %}");
                    s.push_str(&src_tmpl(e));
                }
                s.push_str("{% endfor %}");
                s
            }
            Node::TableRow { x, rng, cols, limit, offset, body } => {
                let mut s = format!("{{% tablerow {} in {}", x, rng.src());
                if let Some(c) = cols {
                    s.push_str(&format!(" cols:{}", c.src()));
                }
                if let Some(l) = limit {
                    s.push_str(&format!(" limit:{}", l.src()));
                }
                if let Some(o) = offset {
                    s.push_str(&format!(" offset:{}", o.src()));
                }
                s.push_str(" %}");
                s.push_str(&src_tmpl(body));
                s.push_str("{% endtablerow %}");
                s
            }
            Node::Cycle { name, vals } => {
                let vs = vals.iter().map(|v| v.src()).collect::<Vec<_>>().join(", ");
                match name {
                    Some(n) => format!("{{% cycle {}: {} %}}", src_value(&Value::scalar(n.clone())), vs),
                    None => format!("{{% cycle {} %}}", vs),
                }
            }
            Node::IfChanged(b) => format!("{{% ifchanged %}}{}{{% endifchanged %}}", src_tmpl(b)),
            Node::Include(n, kvs) => {
                if kvs.is_empty() {
                    format!("{{% include {} %}}", n.src())
                } else {
                    format!("{{% include {} {} %}}", n.src(), src_kvs(kvs))
                }
            }
            Node::Render(n, form, kvs) => {
                let mut s = format!("{{% render {}", n.src());
                match form {
                    RForm::Plain => {}
                    RForm::With(e, a) => s.push_str(&format!(" with {} as {}", e.src(), a)),
                    RForm::For(r, a) => s.push_str(&format!(" for {} as {}", r.src(), a)),
                }
                if !kvs.is_empty() {
                    s.push_str(", ");
                    s.push_str(&src_kvs(kvs));
                }
                s.push_str(" %}");
                s
            }
            Node::Raw(r) => format!("{{% raw %}}{}{{% endraw %}}", r),
            Node::Comment(c) => format!("{{% comment %}}{}{{% endcomment %}}", c),
        }
    }

    pub fn enc(&self, o: &mut Vec<String>) {
        match self {
            Node::Text(s) => {
                o.push("tx".into());
                o.push(xs(s));
            }
            Node::Raw(s) => {
                o.push("rw".into());
                o.push(xs(s));
            }
            Node::Comment(_) => o.push("cm".into()),
            Node::Output(e, fs) => {
                o.push("ou".into());
                e.enc(o);
                enc_filters(fs, o);
            }
            Node::Assign(x, e, fs) => {
                o.push("as".into());
                o.push(xs(x));
                e.enc(o);
                enc_filters(fs, o);
            }
            Node::Capture(x, b) => {
                o.push("cp".into());
                o.push(xs(x));
                enc_tmpl(b, o);
            }
            Node::Incr(x) => {
                o.push("in".into());
                o.push(xs(x));
            }
            Node::Decr(x) => {
                o.push("de".into());
                o.push(xs(x));
            }
            Node::Break => o.push("bk".into()),
            Node::Continue => o.push("ct".into()),
            Node::Cond { c, mode, thn, els, .. } => {
                o.push("if".into());
                c.enc(o);
                o.push(if *mode { "1" } else { "0" }.into());
                enc_tmpl(thn, o);
                enc_opt_t(els, o);
            }
            Node::Case { target, arms, els, .. } => {
                o.push("cs".into());
                target.enc(o);
                o.push(arms.len().to_string());
                for (vals, body) in arms {
                    o.push(vals.len().to_string());
                    for v in vals {
                        v.enc(o);
                    }
                    enc_tmpl(body, o);
                }
                enc_opt_t(els, o);
            }
            Node::For { x, rng, limit, offset, rev, body, els } => {
                o.push("fo".into());
                o.push(xs(x));
                rng.enc(o);
                enc_opt_e(limit, o);
                enc_opt_e(offset, o);
                o.push(if *rev { "1" } else { "0" }.into());
                enc_tmpl(body, o);
                enc_opt_t(els, o);
            }
            Node::TableRow { x, rng, cols, limit, offset, body } => {
                o.push("tr".into());
                o.push(xs(x));
                rng.enc(o);
                enc_opt_e(cols, o);
                enc_opt_e(limit, o);
                enc_opt_e(offset, o);
                enc_tmpl(body, o);
            }
            Node::Cycle { name, vals } => {
                o.push("cy".into());
                // unnamed cycle: the name is the `-`-joined Display of the values
                let n = match name {
                    Some(n) => n.clone(),
                    None => vals.iter().map(|v| v.src_display()).collect::<Vec<_>>().join("-"),
                };
                o.push(xs(&n));
                o.push(vals.len().to_string());
                for v in vals {
                    v.enc(o);
                }
            }
            Node::IfChanged(b) => {
                o.push("ch".into());
                enc_tmpl(b, o);
            }
            Node::Include(n, kvs) => {
                o.push("ic".into());
                n.enc(o);
                enc_kvs(kvs, o);
            }
            Node::Render(n, form, kvs) => {
                o.push("rn".into());
                n.enc(o);
                match form {
                    RForm::Plain => o.push("p".into()),
                    RForm::With(e, a) => {
                        o.push("w".into());
                        e.enc(o);
                        o.push(xs(a));
                    }
                    RForm::For(r, a) => {
                        o.push("f".into());
                        r.enc(o);
                        o.push(xs(a));
                    }
                }
                enc_kvs(kvs, o);
            }
        }
    }
}

fn src_else(s: &mut String, els: &Option<Vec<Node>>, elsif: bool) {
    if let Some(e) = els {
        if elsif {
            if let [Node::Cond { c, mode: true, thn, els: els2, elsif: e2 }] = e.as_slice() {
                s.push_str(&format!("{{% elsif {} %}}{}", c.src(), src_tmpl(thn)));
                src_else(s, els2, *e2);
                return;
            }
        }
        s.push_str("{% else %}");
        s.push_str(&src_tmpl(e));
    }
}

impl Expr {
    /// `Display` of the parsed `Expression` (used for the implicit cycle name).
    pub fn src_display(&self) -> String {
        match self {
            Expr::Lit(v) => format!("{}", v.source()),
            Expr::Var(root, idx) => {
                let mut s = root.clone();
                for i in idx {
                    s.push_str(&format!("[{}]", i.src_display()));
                }
                s
            }
        }
    }
}

pub fn tmpl_tokens(t: &[Node]) -> String {
    let mut o = Vec::new();
    enc_tmpl(t, &mut o);
    o.join(" ")
}
