//! Running the real implementation on a case and canonicalising what it did.
use crate::ast::{enc_tmpl, src_tmpl, Node};
use crate::proto::{hex_bytes, xs};
use liquid::partials::{EagerCompiler, InMemorySource, LazyCompiler, OnDemandCompiler};
use liquid_core::model::Object;
use std::panic::{catch_unwind, AssertUnwindSafe};

#[derive(Clone, Copy, Debug, PartialEq)]
pub enum Policy {
    Eager,
    Lazy,
    OnDemand,
}

/// A partial: `Ok(ast)` well-formed, `Err(text)` deliberately unparsable source.
pub type PartialDef = (String, Result<Vec<Node>, String>);

pub fn build_parser(partials: &[PartialDef], policy: Policy) -> liquid::Parser {
    let mut src = InMemorySource::new();
    for (name, p) in partials {
        let text = match p {
            Ok(t) => src_tmpl(t),
            Err(s) => s.clone(),
        };
        src.add(name.clone(), text);
    }
    let b = liquid::ParserBuilder::with_stdlib();
    match policy {
        Policy::Eager => b.partials(EagerCompiler::new(src)).build().unwrap(),
        Policy::Lazy => b.partials(LazyCompiler::new(src)).build().unwrap(),
        Policy::OnDemand => b.partials(OnDemandCompiler::new(src)).build().unwrap(),
    }
}

/// Observation of one parse+render: `ok x<out>` | `err` | `perr` (parse error) | `PANIC` | `BADUTF8`.
#[derive(Clone, Debug, PartialEq)]
pub enum Obs {
    Ok(String),
    Err(String),
    ParseErr(String),
    Panic(String),
    BadUtf8(Vec<u8>),
}

impl Obs {
    pub fn tokens(&self) -> String {
        match self {
            Obs::Ok(s) => format!("ok {}", xs(s)),
            Obs::Err(m) => format!("err {}", if m.is_empty() { "nomsg" } else { "msg" }),
            Obs::ParseErr(m) => format!("perr {}", if m.is_empty() { "nomsg" } else { "msg" }),
            Obs::Panic(_) => "PANIC -".into(),
            Obs::BadUtf8(b) => format!("BADUTF8 x{}", hex_bytes(b)),
        }
    }
}

pub fn panic_msg(e: Box<dyn std::any::Any + Send>) -> String {
    if let Some(s) = e.downcast_ref::<&str>() {
        s.to_string()
    } else if let Some(s) = e.downcast_ref::<String>() {
        s.clone()
    } else {
        "?".into()
    }
}

/// Work counter of the whole process: bumped by every render.  The deadlock watchdog of the
/// concurrency checks looks at it instead of at the clock alone, so that a slow (overloaded) machine
/// is never mistaken for a deadlock: a deadlock is "no thread finishes *and no render anywhere in the
/// process makes progress* for the whole idle limit".
pub static PROGRESS: std::sync::atomic::AtomicU64 = std::sync::atomic::AtomicU64::new(0);
pub fn progress() {
    PROGRESS.fetch_add(1, std::sync::atomic::Ordering::Relaxed);
}
/// `recv` with the progress-aware watchdog: `None` when nothing arrived and the work counter stood
/// still for `idle_secs` seconds in a row (or all senders are gone).
pub fn recv_watch<T>(rx: &std::sync::mpsc::Receiver<T>, idle_secs: u64) -> Option<T> {
    use std::sync::atomic::Ordering;
    let mut last = PROGRESS.load(Ordering::Relaxed);
    let mut idle = 0;
    loop {
        match rx.recv_timeout(std::time::Duration::from_secs(1)) {
            Ok(v) => return Some(v),
            Err(std::sync::mpsc::RecvTimeoutError::Disconnected) => return None,
            Err(std::sync::mpsc::RecvTimeoutError::Timeout) => {
                let now = PROGRESS.load(Ordering::Relaxed);
                if now != last {
                    last = now;
                    idle = 0;
                } else {
                    idle += 1;
                    if idle >= idle_secs {
                        return None;
                    }
                }
            }
        }
    }
}

/// One render through both public entry points: `render_to` (caller's sink) and the buffered
/// `render` (returns a `String`), and `render_to` once more into a sink that accepts three bytes per
/// call.  They must agree.  A disagreement is reported as the observation
/// `PANIC` (with a note on stderr): no reference ever produces it, so every check that compares a
/// render flags the case, whichever of the two entry points is the wrong one.
fn render_both(t: &liquid::Template, data: &Object) -> Obs {
    progress();
    let mut buf = Vec::new();
    let a = match t.render_to(&mut buf, data) {
        Ok(()) => match String::from_utf8(buf) {
            Ok(s) => Obs::Ok(s),
            Err(e) => Obs::BadUtf8(e.into_bytes()),
        },
        Err(e) => Obs::Err(e.to_string()),
    };
    let b = match t.render(data) {
        Ok(s) => Obs::Ok(s),
        Err(e) => Obs::Err(e.to_string()),
    };
    // a sink that takes at most 3 bytes per `write` call (legal for `io::Write`: callers must loop)
    struct Short(Vec<u8>);
    impl std::io::Write for Short {
        fn write(&mut self, b: &[u8]) -> std::io::Result<usize> {
            let n = b.len().min(3);
            self.0.extend_from_slice(&b[..n]);
            Ok(n)
        }
        fn flush(&mut self) -> std::io::Result<()> {
            Ok(())
        }
    }
    let mut short = Short(Vec::new());
    let c = match t.render_to(&mut short, data) {
        Ok(()) => match String::from_utf8(short.0) {
            Ok(s) => Obs::Ok(s),
            Err(e) => Obs::BadUtf8(e.into_bytes()),
        },
        Err(e) => Obs::Err(e.to_string()),
    };
    if a.tokens() != c.tokens() {
        eprintln!("note: Template::render_to gives a different result through a sink that accepts 3 bytes per write: whole={} short={}", a.tokens().chars().take(200).collect::<String>(), c.tokens().chars().take(200).collect::<String>());
        return Obs::Panic("render_to depends on how much the sink accepts per write".into());
    }
    if a.tokens() != b.tokens() {
        eprintln!("note: Template::render and Template::render_to disagree: render_to={} render={}", a.tokens().chars().take(200).collect::<String>(), b.tokens().chars().take(200).collect::<String>());
        return Obs::Panic("Template::render and Template::render_to disagree".into());
    }
    a
}

pub fn render_text(parser: &liquid::Parser, text: &str, data: &Object) -> Obs {
    let r = catch_unwind(AssertUnwindSafe(|| {
        let t = match parser.parse(text) {
            Ok(t) => t,
            Err(e) => return Obs::ParseErr(e.to_string()),
        };
        render_both(&t, data)
    }));
    match r {
        Ok(o) => o,
        Err(e) => Obs::Panic(panic_msg(e)),
    }
}

/// The same as `render_text`, but the source reaches the parser through `Parser::parse_file` (the text
/// is written to a scratch file of this process first).  `None` when the scratch file cannot be written.
pub fn render_text_via_file(parser: &liquid::Parser, text: &str, data: &Object) -> Option<Obs> {
    let dir = std::env::temp_dir().join(format!("liquid-verif-harness-{}", std::process::id()));
    std::fs::create_dir_all(&dir).ok()?;
    let path = dir.join("t.liquid");
    std::fs::write(&path, text.as_bytes()).ok()?;
    let r = catch_unwind(AssertUnwindSafe(|| {
        let t = match parser.parse_file(&path) {
            Ok(t) => t,
            Err(e) => return Obs::ParseErr(e.to_string()),
        };
        render_both(&t, data)
    }));
    let _ = std::fs::remove_file(&path);
    Some(match r {
        Ok(o) => o,
        Err(e) => Obs::Panic(panic_msg(e)),
    })
}

fn unhex(s: &str) -> Option<String> {
    if s.len() % 2 != 0 {
        return None;
    }
    let bytes: Option<Vec<u8>> = (0..s.len() / 2).map(|i| u8::from_str_radix(&s[2 * i..2 * i + 2], 16).ok()).collect();
    String::from_utf8(bytes?).ok()
}

/// `harness --render-one`: the body of a child process that renders ONE template once and prints the
/// observation.  stdin: line 1 = hex(template), line 2 = hex(JSON of the data), further lines =
/// `hex(name) hex(source)` of the partials.  Used as a reference that shares NOTHING with the parent
/// process (no static, no thread-local, no allocator state).
pub fn render_one_from_stdin() {
    use std::io::BufRead;
    let stdin = std::io::stdin();
    let lines: Vec<String> = stdin.lock().lines().map_while(|l| l.ok()).collect();
    let text = lines.first().and_then(|l| unhex(l.trim())).unwrap_or_default();
    let data: Object = lines.get(1).and_then(|l| unhex(l.trim())).and_then(|j| serde_json::from_str(&j).ok()).unwrap_or_default();
    let mut src = InMemorySource::new();
    for l in lines.iter().skip(2) {
        let mut it = l.split_whitespace();
        if let (Some(n), Some(t)) = (it.next().and_then(unhex), it.next().map(|t| unhex(t).unwrap_or_default())) {
            src.add(n, t);
        }
    }
    let parser = liquid::ParserBuilder::with_stdlib().partials(LazyCompiler::new(src)).build().unwrap();
    println!("{}", render_text(&parser, &text, &data).tokens());
}

/// Run `render_one_from_stdin` in a child process of this very executable; `None` when the child
/// could not be run.
pub fn render_in_child(partials: &[PartialDef], text: &str, data: &Object) -> Option<String> {
    use std::io::Write;
    use std::process::{Command, Stdio};
    let exe = std::env::current_exe().ok()?;
    let mut child = Command::new(exe).arg("--render-one").stdin(Stdio::piped()).stdout(Stdio::piped()).stderr(Stdio::null()).spawn().ok()?;
    {
        let mut input = String::new();
        input.push_str(&crate::proto::hex(text));
        input.push('\n');
        input.push_str(&crate::proto::hex(&serde_json::to_string(data).ok()?));
        input.push('\n');
        for (name, p) in partials {
            let t = match p {
                Ok(t) => src_tmpl(t),
                Err(s) => s.clone(),
            };
            input.push_str(&format!("{} {}\n", crate::proto::hex(name), crate::proto::hex(&t)));
        }
        child.stdin.take()?.write_all(input.as_bytes()).ok()?;
    }
    let out = child.wait_with_output().ok()?;
    let s = String::from_utf8(out.stdout).ok()?;
    let s = s.trim().to_string();
    if s.is_empty() { None } else { Some(s) }
}

/// Render an already parsed template (the SAME `Template` object may be rendered many times).
pub fn render_parsed(t: &Result<liquid::Template, String>, data: &Object) -> Obs {
    let r = catch_unwind(AssertUnwindSafe(|| {
        let t = match t {
            Ok(t) => t,
            Err(e) => return Obs::ParseErr(e.clone()),
        };
        render_both(&t, data)
    }));
    match r {
        Ok(o) => o,
        Err(e) => Obs::Panic(panic_msg(e)),
    }
}

pub fn parse_once(parser: &liquid::Parser, text: &str) -> Result<liquid::Template, String> {
    match catch_unwind(AssertUnwindSafe(|| parser.parse(text).map_err(|e| e.to_string()))) {
        Ok(r) => r,
        Err(e) => Err(format!("PANIC {}", panic_msg(e))),
    }
}

pub fn partial_tokens(partials: &[PartialDef]) -> String {
    let mut o = vec![partials.len().to_string()];
    for (name, p) in partials {
        o.push(xs(name));
        match p {
            Ok(t) => {
                o.push("+".into());
                enc_tmpl(t, &mut o);
            }
            Err(_) => o.push("-".into()),
        }
    }
    o.join(" ")
}

/// The generic `render` case line: AST, data, partials, observation.
pub fn render_case(op: &str, extra: &str, t: &[Node], data: &Object, partials: &[PartialDef], obs: &Obs) -> String {
    let mut toks = Vec::new();
    enc_tmpl(t, &mut toks);
    let mut d = Vec::new();
    crate::proto::enc_view(data, &mut d);
    format!(
        "{} {}{} {} {} {} #{}:{}",
        op,
        if extra.is_empty() { String::new() } else { format!("{} ", extra) },
        toks.join(" "),
        d.join(" "),
        partial_tokens(partials),
        obs.tokens(),
        xs(&src_tmpl(t)),
        xs(&serde_json::to_string(data).unwrap_or_default())
    )
}
