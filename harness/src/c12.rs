//! C12: all views and conversions of a datum agree (owned, borrowed, serde, derive).
//!
//! * a recursive value generator (depth <= 4, every scalar kind incl. dates and date-times, arrays,
//!   single- and multi-key objects), each datum observed through every view: `Value`, `&Value`,
//!   `as_view()`, `ValueCow::{Owned,Borrowed}`, `Option`, `Vec<T>`, `HashMap`/`BTreeMap`, the native
//!   Rust scalar types, `to_value()`, and through the conversions `to_value(&v)` (serde),
//!   `from_value::<Value>`, serde_json text and `serde_json::Value`;
//! * a family of Rust types with `derive(Serialize, Deserialize, ObjectView, ValueView)`: derived view,
//!   `to_value`, `to_object`, JSON, typed round trip, and templates rendered with the derived struct
//!   vs. the serde-converted object as globals;
//! * integers across the u64/i64 boundaries through every serializer.
//!
//! Every observation is transmitted as protocol tokens; the Lean driver compares it with the single
//! definition of that observation in the model.  Multi-key objects are compared order-insensitively.
use crate::ast::*;
use crate::proto::{enc_view, hex, xs};
use crate::rng::Rng;
use crate::run::panic_msg;
use crate::Ctx;
use liquid::model::{
    from_value, to_scalar, to_value, Date, DateTime, KString, KStringCow, KStringRef, Object, Scalar, State, Value,
    ValueCow, ValueView, ValueViewCmp,
};
use liquid::ObjectView as _;
use serde::de::DeserializeOwned;
use serde::{Deserialize, Serialize};
use std::collections::{BTreeMap, HashMap};
use std::panic::{catch_unwind, AssertUnwindSafe};

// ------------------------------------------------------------------------------------------------
// recording serializer: the serde data-model tree a `Serialize` impl emits, as protocol tokens
// ------------------------------------------------------------------------------------------------

#[derive(Debug)]
struct RecErr(String);
impl std::fmt::Display for RecErr {
    fn fmt(&self, f: &mut std::fmt::Formatter<'_>) -> std::fmt::Result {
        write!(f, "{}", self.0)
    }
}
impl std::error::Error for RecErr {}
impl serde::ser::Error for RecErr {
    fn custom<T: std::fmt::Display>(msg: T) -> Self {
        RecErr(msg.to_string())
    }
}

fn f64_tok(pfx: &str, f: f64) -> String {
    format!("{}:{:x}:{}", pfx, f.to_bits(), hex(&format!("{}", f)))
}

/// tokens + every text leaf (for the date-text oracle table)
struct Rec<'a> {
    out: &'a mut Vec<String>,
    texts: &'a mut Vec<String>,
}

struct RecSeq<'a> {
    head: usize,
    mk: fn(usize, &str) -> String,
    name: String,
    n: usize,
    out: &'a mut Vec<String>,
    texts: &'a mut Vec<String>,
}

impl<'a> RecSeq<'a> {
    fn finish(self) {
        self.out[self.head] = (self.mk)(self.n, &self.name);
    }
}

macro_rules! rec_int {
    ($f:ident, $t:ty, $tag:expr) => {
        fn $f(self, v: $t) -> Result<(), RecErr> {
            self.out.push(format!("si:{}:{}", $tag, v));
            Ok(())
        }
    };
}

impl<'a> serde::Serializer for Rec<'a> {
    type Ok = ();
    type Error = RecErr;
    type SerializeSeq = RecSeq<'a>;
    type SerializeTuple = RecSeq<'a>;
    type SerializeTupleStruct = RecSeq<'a>;
    type SerializeTupleVariant = RecSeq<'a>;
    type SerializeMap = RecSeq<'a>;
    type SerializeStruct = RecSeq<'a>;
    type SerializeStructVariant = RecSeq<'a>;

    fn serialize_bool(self, v: bool) -> Result<(), RecErr> {
        self.out.push(if v { "sb1".into() } else { "sb0".into() });
        Ok(())
    }
    rec_int!(serialize_i8, i8, "i8");
    rec_int!(serialize_i16, i16, "i16");
    rec_int!(serialize_i32, i32, "i32");
    rec_int!(serialize_i64, i64, "i64");
    rec_int!(serialize_i128, i128, "i128");
    rec_int!(serialize_u8, u8, "u8");
    rec_int!(serialize_u16, u16, "u16");
    rec_int!(serialize_u32, u32, "u32");
    rec_int!(serialize_u64, u64, "u64");
    rec_int!(serialize_u128, u128, "u128");
    fn serialize_f32(self, v: f32) -> Result<(), RecErr> {
        self.out.push(f64_tok("sf32", f64::from(v)));
        Ok(())
    }
    fn serialize_f64(self, v: f64) -> Result<(), RecErr> {
        self.out.push(f64_tok("sf64", v));
        Ok(())
    }
    fn serialize_char(self, v: char) -> Result<(), RecErr> {
        self.texts.push(v.to_string());
        self.out.push(format!("sc{}", hex(&v.to_string())));
        Ok(())
    }
    fn serialize_str(self, v: &str) -> Result<(), RecErr> {
        self.texts.push(v.to_string());
        self.out.push(format!("ss{}", hex(v)));
        Ok(())
    }
    fn serialize_bytes(self, v: &[u8]) -> Result<(), RecErr> {
        self.out.push(format!("sy{}", crate::proto::hex_bytes(v)));
        Ok(())
    }
    fn serialize_none(self) -> Result<(), RecErr> {
        self.out.push("sn".into());
        Ok(())
    }
    fn serialize_some<T: Serialize + ?Sized>(self, v: &T) -> Result<(), RecErr> {
        self.out.push("so".into());
        v.serialize(Rec { out: self.out, texts: self.texts })
    }
    fn serialize_unit(self) -> Result<(), RecErr> {
        self.out.push("su".into());
        Ok(())
    }
    fn serialize_unit_struct(self, _n: &'static str) -> Result<(), RecErr> {
        self.out.push("sU".into());
        Ok(())
    }
    fn serialize_unit_variant(self, _n: &'static str, _i: u32, variant: &'static str) -> Result<(), RecErr> {
        self.texts.push(variant.to_string());
        self.out.push(format!("sv{}", hex(variant)));
        Ok(())
    }
    fn serialize_newtype_struct<T: Serialize + ?Sized>(self, _n: &'static str, v: &T) -> Result<(), RecErr> {
        self.out.push("sN".into());
        v.serialize(Rec { out: self.out, texts: self.texts })
    }
    fn serialize_newtype_variant<T: Serialize + ?Sized>(
        self,
        _n: &'static str,
        _i: u32,
        variant: &'static str,
        v: &T,
    ) -> Result<(), RecErr> {
        self.out.push(format!("sV{}", hex(variant)));
        v.serialize(Rec { out: self.out, texts: self.texts })
    }
    fn serialize_seq(self, _len: Option<usize>) -> Result<RecSeq<'a>, RecErr> {
        self.out.push(String::new());
        Ok(RecSeq { head: self.out.len() - 1, mk: |n, _| format!("sq{}", n), name: String::new(), n: 0, out: self.out, texts: self.texts })
    }
    fn serialize_tuple(self, _len: usize) -> Result<RecSeq<'a>, RecErr> {
        self.out.push(String::new());
        Ok(RecSeq { head: self.out.len() - 1, mk: |n, _| format!("st{}", n), name: String::new(), n: 0, out: self.out, texts: self.texts })
    }
    fn serialize_tuple_struct(self, _n: &'static str, _len: usize) -> Result<RecSeq<'a>, RecErr> {
        self.out.push(String::new());
        Ok(RecSeq { head: self.out.len() - 1, mk: |n, _| format!("sT{}", n), name: String::new(), n: 0, out: self.out, texts: self.texts })
    }
    fn serialize_tuple_variant(self, _n: &'static str, _i: u32, variant: &'static str, _len: usize) -> Result<RecSeq<'a>, RecErr> {
        self.out.push(String::new());
        Ok(RecSeq { head: self.out.len() - 1, mk: |n, v| format!("sW{}:{}", hex(v), n), name: variant.to_string(), n: 0, out: self.out, texts: self.texts })
    }
    fn serialize_map(self, _len: Option<usize>) -> Result<RecSeq<'a>, RecErr> {
        self.out.push(String::new());
        Ok(RecSeq { head: self.out.len() - 1, mk: |n, _| format!("sm{}", n), name: String::new(), n: 0, out: self.out, texts: self.texts })
    }
    fn serialize_struct(self, _n: &'static str, _len: usize) -> Result<RecSeq<'a>, RecErr> {
        self.out.push(String::new());
        Ok(RecSeq { head: self.out.len() - 1, mk: |n, _| format!("sS{}", n), name: String::new(), n: 0, out: self.out, texts: self.texts })
    }
    fn serialize_struct_variant(self, _n: &'static str, _i: u32, variant: &'static str, _len: usize) -> Result<RecSeq<'a>, RecErr> {
        self.out.push(String::new());
        Ok(RecSeq { head: self.out.len() - 1, mk: |n, v| format!("sX{}:{}", hex(v), n), name: variant.to_string(), n: 0, out: self.out, texts: self.texts })
    }
}

impl<'a> serde::ser::SerializeSeq for RecSeq<'a> {
    type Ok = ();
    type Error = RecErr;
    fn serialize_element<T: Serialize + ?Sized>(&mut self, v: &T) -> Result<(), RecErr> {
        self.n += 1;
        v.serialize(Rec { out: self.out, texts: self.texts })
    }
    fn end(self) -> Result<(), RecErr> {
        self.finish();
        Ok(())
    }
}
impl<'a> serde::ser::SerializeTuple for RecSeq<'a> {
    type Ok = ();
    type Error = RecErr;
    fn serialize_element<T: Serialize + ?Sized>(&mut self, v: &T) -> Result<(), RecErr> {
        self.n += 1;
        v.serialize(Rec { out: self.out, texts: self.texts })
    }
    fn end(self) -> Result<(), RecErr> {
        self.finish();
        Ok(())
    }
}
impl<'a> serde::ser::SerializeTupleStruct for RecSeq<'a> {
    type Ok = ();
    type Error = RecErr;
    fn serialize_field<T: Serialize + ?Sized>(&mut self, v: &T) -> Result<(), RecErr> {
        self.n += 1;
        v.serialize(Rec { out: self.out, texts: self.texts })
    }
    fn end(self) -> Result<(), RecErr> {
        self.finish();
        Ok(())
    }
}
impl<'a> serde::ser::SerializeTupleVariant for RecSeq<'a> {
    type Ok = ();
    type Error = RecErr;
    fn serialize_field<T: Serialize + ?Sized>(&mut self, v: &T) -> Result<(), RecErr> {
        self.n += 1;
        v.serialize(Rec { out: self.out, texts: self.texts })
    }
    fn end(self) -> Result<(), RecErr> {
        self.finish();
        Ok(())
    }
}
impl<'a> serde::ser::SerializeMap for RecSeq<'a> {
    type Ok = ();
    type Error = RecErr;
    fn serialize_key<T: Serialize + ?Sized>(&mut self, k: &T) -> Result<(), RecErr> {
        self.n += 1;
        // keys are not text leaves of the *value* (the oracle is never asked about a key)
        let mut scratch = Vec::new();
        k.serialize(Rec { out: self.out, texts: &mut scratch })
    }
    fn serialize_value<T: Serialize + ?Sized>(&mut self, v: &T) -> Result<(), RecErr> {
        v.serialize(Rec { out: self.out, texts: self.texts })
    }
    fn end(self) -> Result<(), RecErr> {
        self.finish();
        Ok(())
    }
}
impl<'a> serde::ser::SerializeStruct for RecSeq<'a> {
    type Ok = ();
    type Error = RecErr;
    fn serialize_field<T: Serialize + ?Sized>(&mut self, key: &'static str, v: &T) -> Result<(), RecErr> {
        self.n += 1;
        self.out.push(format!("k{}", hex(key)));
        v.serialize(Rec { out: self.out, texts: self.texts })
    }
    fn end(self) -> Result<(), RecErr> {
        self.finish();
        Ok(())
    }
}
impl<'a> serde::ser::SerializeStructVariant for RecSeq<'a> {
    type Ok = ();
    type Error = RecErr;
    fn serialize_field<T: Serialize + ?Sized>(&mut self, key: &'static str, v: &T) -> Result<(), RecErr> {
        self.n += 1;
        self.out.push(format!("k{}", hex(key)));
        v.serialize(Rec { out: self.out, texts: self.texts })
    }
    fn end(self) -> Result<(), RecErr> {
        self.finish();
        Ok(())
    }
}

/// SD tokens of `x` and its text leaves
fn sd_of<T: Serialize + ?Sized>(x: &T) -> (String, Vec<String>) {
    let mut out = Vec::new();
    let mut texts = Vec::new();
    x.serialize(Rec { out: &mut out, texts: &mut texts }).expect("recording serializer never fails");
    (out.join(" "), texts)
}

// ------------------------------------------------------------------------------------------------
// the date-text oracle: the `time` crate's parsers behind friendly_date(_time)::deserialize
// (format descriptions copied from crates/core/src/model/scalar/{date,datetime}.rs)
// ------------------------------------------------------------------------------------------------

const DATE_FORMAT: &[time::format_description::FormatItem<'static>] = time::macros::format_description!("[year]-[month]-[day]");
const DATE_TIME_FORMAT: &[time::format_description::FormatItem<'static>] =
    time::macros::format_description!("[year]-[month]-[day] [hour]:[minute]:[second] [offset_hour sign:mandatory][offset_minute]");
const DATE_TIME_FORMAT_SUBSEC: &[time::format_description::FormatItem<'static>] = time::macros::format_description!(
    "[year]-[month]-[day] [hour]:[minute]:[second].[subsecond] [offset_hour sign:mandatory][offset_minute]"
);

fn dt_tok(d: &DateTime) -> String {
    let off = d.offset().whole_seconds() as i128;
    let loc = d.unix_timestamp_nanos() + off * 1_000_000_000;
    format!("D{}:{}:{}", loc, off, hex(&d.to_string()))
}
fn date_tok(d: &Date) -> String {
    let days = d.to_julian_day() as i64 - 2440588;
    format!("Y{}:{}", days, hex(&d.to_string()))
}

fn orc_row(s: &str) -> String {
    let dt = time::OffsetDateTime::parse(s, DATE_TIME_FORMAT_SUBSEC).or_else(|_| time::OffsetDateTime::parse(s, DATE_TIME_FORMAT)).ok();
    let date = time::Date::parse(s, DATE_FORMAT).ok();
    let a = match dt {
        Some(o) => {
            let mut d = DateTime::default();
            *d = o;
            dt_tok(&d)
        }
        None => "-".into(),
    };
    let b = match date {
        Some(o) => {
            let mut d = Date::from_ymd(2000, 1, 1);
            *d = o;
            date_tok(&d)
        }
        None => "-".into(),
    };
    format!("{} {} {}", xs(s), a, b)
}

fn orc_table(texts: &[String]) -> String {
    let mut seen: Vec<&String> = Vec::new();
    for t in texts {
        if !seen.contains(&t) {
            seen.push(t);
        }
    }
    let mut o = vec![seen.len().to_string()];
    for t in seen {
        o.push(orc_row(t));
    }
    o.join(" ")
}

fn texts_of_value(v: &Value, out: &mut Vec<String>) {
    match v {
        Value::Scalar(s) => match s.type_name() {
            "string" | "date" | "date time" => out.push(s.to_kstr().to_string()),
            _ => {}
        },
        Value::Array(a) => a.iter().for_each(|e| texts_of_value(e, out)),
        Value::Object(o) => o.values().for_each(|e| texts_of_value(e, out)),
        _ => {}
    }
}

fn looks_numeric(s: &str) -> bool {
    s.parse::<i64>().is_ok() || s.parse::<f64>().is_ok()
}
fn has_numeric_string(v: &Value) -> bool {
    match v {
        Value::Scalar(s) => s.type_name() == "string" && looks_numeric(s.to_kstr().as_str()),
        Value::Array(a) => a.iter().any(has_numeric_string),
        Value::Object(o) => o.values().any(has_numeric_string),
        _ => false,
    }
}

// ------------------------------------------------------------------------------------------------
// observations
// ------------------------------------------------------------------------------------------------

fn view_tokens(v: &dyn ValueView) -> String {
    let mut o = Vec::new();
    enc_view(v, &mut o);
    o.join(" ")
}

fn bit(b: bool) -> char {
    if b {
        '1'
    } else {
        '0'
    }
}

/// every observation of one view: structure, render, source, type_name, query_state ×4, to_kstr,
/// `==` with the datum in both directions, to_value()
fn bundle(name: &str, v: &dyn ValueView, datum: &dyn ValueView) -> String {
    let r = catch_unwind(AssertUnwindSafe(|| {
        let qs: String = [State::Truthy, State::DefaultValue, State::Empty, State::Blank].iter().map(|s| bit(v.query_state(*s))).collect();
        let eqs: String = [ValueViewCmp::new(v) == ValueViewCmp::new(datum), ValueViewCmp::new(datum) == ValueViewCmp::new(v)].iter().map(|b| bit(*b)).collect();
        format!(
            "{} {} {} {} {} {} {} {} {}",
            name,
            view_tokens(v),
            xs(&v.render().to_string()),
            xs(&v.source().to_string()),
            xs(v.type_name()),
            qs,
            xs(v.to_kstr().as_str()),
            eqs,
            view_tokens(&v.to_value())
        )
    }));
    match r {
        Ok(s) => s,
        Err(e) => format!("{} PANIC {}", name, hex(&panic_msg(e))),
    }
}

fn res_tokens(r: Result<Result<Value, liquid::Error>, Box<dyn std::any::Any + Send>>) -> String {
    match r {
        Ok(Ok(v)) => format!("ok {}", view_tokens(&v)),
        Ok(Err(e)) => format!("err {}", if e.to_string().is_empty() { "nomsg" } else { "msg" }),
        Err(_) => "PANIC -".into(),
    }
}

fn guarded<F: FnOnce() -> Result<Value, liquid::Error>>(f: F) -> String {
    res_tokens(catch_unwind(AssertUnwindSafe(f)))
}

fn json_err(e: serde_json::Error) -> liquid::Error {
    liquid::Error::with_msg(e.to_string())
}

fn shape(v: &Value) -> &'static str {
    match v {
        Value::Nil => "nil",
        Value::State(_) => "state",
        Value::Scalar(s) => match s.type_name() {
            "whole number" => "int",
            "fractional number" => "float",
            "boolean" => "bool",
            "date time" => "datetime",
            "date" => "date",
            _ => "string",
        },
        Value::Array(_) => "array",
        Value::Object(o) => {
            if o.len() > 1 {
                "object-multi"
            } else {
                "object"
            }
        }
    }
}

// ------------------------------------------------------------------------------------------------
// value generator
// ------------------------------------------------------------------------------------------------

const INTS: &[i64] = &[
    0, 1, -1, 2, 7, 10, 42, -42, 255, 256, 65535, 65536, 2147483647, 2147483648, -2147483648, -2147483649, 4294967295,
    4294967296, 9007199254740992, 9007199254740993, -9007199254740993, i64::MAX, i64::MAX - 1, i64::MIN, i64::MIN + 1,
];
const FLOATS: &[f64] = &[
    0.0, -0.0, 1.0, -1.0, 0.5, 1.5, -2.75, 0.1, 3.14e10, 1e21, 1e-7, 1e300, 5e-324, 9007199254740992.0, 9223372036854775808.0,
    -9223372036854775808.0, 18446744073709551616.0, f64::MAX, f64::MIN_POSITIVE, f64::NAN, f64::INFINITY, f64::NEG_INFINITY,
];
const STRINGS: &[&str] = &[
    "", " ", "\t\n", "a", "abc", "Hello World", "héllo", "日本", "🙂", "\"q\"", "a\"b", "nil", "true", "false", "empty", "Truthy", "Blank",
    "size", "first", "{{x}}", "x, y", "0", "1", "-1", "+5", "007", "123", "9223372036854775807", "9223372036854775808", "1.5", "1e3",
    "inf", "NaN", ".5", " 12", "12 ", "1_000", "2022-03-02", "+2022-03-02", "2022-3-2", "2022-02-30", "02 March 2022", "2016-02-16 10:00:00 +0100",
    "2016-02-16 10:00:00.5 +0100", "2016-02-16 10:00:00", "2016-02-16 10:00:00 +01:00", "now", "today",
    // white space beyond ASCII (and the vertical tab, which `is_ascii_whitespace` does not count): blank is blank
    "\u{a0}", "\u{3000}", "\u{2003} ", "\u{b}", "\u{85}", "\u{2028}\u{2029}", " \u{a0}\t", "\u{200b}", "\u{feff}", "\u{1680}", "\u{c}",
    "Today", "NOW", "yesterday", "01 Mar 2022", "1 March 2022", "March 2022", "2022-03-02T10:00:00Z", "10:00", "Tue, 02 Mar 2022",
];
const KEYS: &[&str] = &["a", "b", "c", "k", "key", "size", "first", "x y", "é", "", "0", "type"];
const DATETIMES: &[&str] = &[
    "2016-02-16 10:00:00 +0100",
    "2016-02-16 10:00:00.5 +0100",
    "1970-01-01 00:00:00 +0000",
    "1969-12-31 23:59:59.999999999 -0800",
    "2024-02-29 12:30:45 +0530",
    "9999-12-31 23:59:59 +0000",
    "0001-01-01 00:00:00 +0000",
    "2000-01-01 00:00:00.000000001 -1200",
    "1999-12-31 23:00:00 -0100",
];
const DATES: &[(i32, u8, u8)] = &[(2022, 3, 2), (1970, 1, 1), (1969, 12, 31), (2024, 2, 29), (9999, 12, 31), (1, 1, 1), (0, 1, 1), (-1, 12, 31), (2000, 2, 29)];

struct Gen {
    rng: Rng,
    /// include `State` markers / non-finite floats / date-like and numeric-looking strings
    wild: bool,
}

impl Gen {
    fn int(&mut self) -> i64 {
        if self.rng.chance(2, 3) {
            *self.rng.pick(INTS)
        } else {
            self.rng.next() as i64 >> self.rng.below(64)
        }
    }
    fn float(&mut self) -> f64 {
        loop {
            let f = if self.rng.chance(2, 3) { *self.rng.pick(FLOATS) } else { f64::from_bits(self.rng.next()) };
            if self.wild || f.is_finite() {
                return f;
            }
        }
    }
    fn string(&mut self) -> String {
        loop {
            let s: String = if self.rng.chance(3, 4) {
                (*self.rng.pick(STRINGS)).to_string()
            } else {
                let n = self.rng.below(6);
                (0..n).map(|_| *self.rng.pick(&['a', 'b', ' ', '1', '-', 'é', '0', ':', '.', 'e', '+', 'Z'])).collect()
            };
            if self.wild {
                return s;
            }
            // tame strings: not numeric-looking, not in a date format
            let row = orc_row(&s);
            if !looks_numeric(&s) && row.ends_with(" - -") {
                return s;
            }
        }
    }
    fn datetime(&mut self) -> DateTime {
        DateTime::from_str(*self.rng.pick(DATETIMES)).expect("datetime pool parses")
    }
    fn date(&mut self) -> Date {
        let (y, m, d) = *self.rng.pick(DATES);
        Date::from_ymd(y, m, d)
    }
    fn scalar(&mut self) -> Value {
        match self.rng.below(7) {
            0 => Value::scalar(self.int()),
            1 => Value::scalar(self.float()),
            2 => Value::scalar(self.rng.chance(1, 2)),
            3 => Value::scalar(self.datetime()),
            4 => Value::scalar(self.date()),
            _ => Value::scalar(self.string()),
        }
    }
    fn key(&mut self) -> String {
        (*self.rng.pick(KEYS)).to_string()
    }
    fn value(&mut self, depth: usize) -> Value {
        let leaf = depth == 0 || self.rng.chance(2, 5);
        if leaf {
            match self.rng.below(12) {
                0 => Value::Nil,
                1 if self.wild => Value::State(*self.rng.pick(&[State::Truthy, State::DefaultValue, State::Empty, State::Blank])),
                _ => self.scalar(),
            }
        } else if self.rng.chance(1, 2) {
            let n = self.rng.below(4);
            Value::Array((0..n).map(|_| self.value(depth - 1)).collect())
        } else {
            let n = match self.rng.below(5) {
                0 => 0,
                1 | 2 => 1,
                3 => 2,
                _ => 2 + self.rng.below(4),
            };
            let mut o = Object::new();
            for _ in 0..n {
                let k = self.key();
                let v = self.value(depth - 1);
                o.insert(k.into(), v);
            }
            Value::Object(o)
        }
    }
}

// ------------------------------------------------------------------------------------------------
// views of a `Value`
// ------------------------------------------------------------------------------------------------

fn value_views(v: &Value) -> Vec<String> {
    let d: &dyn ValueView = v;
    let mut b: Vec<String> = Vec::new();
    b.push(bundle("value", v, d));
    b.push(bundle("ref", &v, d));
    b.push(bundle("refref", &&v, d));
    b.push(bundle("as_view", v.as_view(), d));
    b.push(bundle("clone", &v.clone(), d));
    b.push(bundle("to_value", &v.to_value(), d));
    b.push(bundle("cow_owned", &ValueCow::Owned(v.clone()), d));
    b.push(bundle("cow_borrowed", &ValueCow::Borrowed(v), d));
    b.push(bundle("cow_from_ref", &ValueCow::from(v), d));
    b.push(bundle("cow_as_view", ValueCow::Borrowed(v).as_view(), d));
    b.push(bundle("cow_into_owned", &ValueCow::Borrowed(v).into_owned(), d));
    b.push(bundle("option_some", &Some(v.clone()), d));
    b.push(bundle("option_ref", &Some(v), d));
    b.push(bundle("option_cow", &Some(ValueCow::Borrowed(v)), d));
    match v {
        Value::Nil => {
            b.push(bundle("option_none_i64", &Option::<i64>::None, d));
            b.push(bundle("option_none_value", &Option::<Value>::None, d));
            b.push(bundle("default", &Value::default(), d));
            b.push(bundle("cow_default", &ValueCow::default(), d));
        }
        Value::State(s) => {
            b.push(bundle("state", s, d));
            b.push(bundle("cow_from_state", &ValueCow::from(*s), d));
        }
        Value::Scalar(s) => {
            let sc: Scalar = s.clone();
            b.push(bundle("scalar", &sc, d));
            b.push(bundle("scalar_ref", &sc.as_ref(), d));
            b.push(bundle("scalar_as_view", sc.as_view(), d));
            b.push(bundle("scalar_into_owned", &sc.as_ref().into_owned(), d));
            b.push(bundle("cow_from_scalar", &ValueCow::from(sc.clone()), d));
            match s.type_name() {
                "whole number" => {
                    let i = s.to_integer().unwrap();
                    b.push(bundle("i64", &i, d));
                    if let Ok(x) = i32::try_from(i) {
                        b.push(bundle("i32", &x, d));
                    }
                    if let Ok(x) = u32::try_from(i) {
                        b.push(bundle("u32", &x, d));
                    }
                    if let Ok(x) = i16::try_from(i) {
                        b.push(bundle("i16", &x, d));
                    }
                    if let Ok(x) = u16::try_from(i) {
                        b.push(bundle("u16", &x, d));
                    }
                    if let Ok(x) = i8::try_from(i) {
                        b.push(bundle("i8", &x, d));
                    }
                    if let Ok(x) = u8::try_from(i) {
                        b.push(bundle("u8", &x, d));
                    }
                }
                "fractional number" => {
                    let f = s.to_float().unwrap();
                    b.push(bundle("f64", &f, d));
                }
                "boolean" => b.push(bundle("bool", &s.to_bool().unwrap(), d)),
                "date time" => b.push(bundle("DateTime", &s.to_date_time().unwrap(), d)),
                "date" => b.push(bundle("Date", &s.to_date().unwrap(), d)),
                _ => {
                    let t = s.to_kstr().to_string();
                    b.push(bundle("str", &t.as_str(), d));
                    b.push(bundle("String", &t, d));
                    b.push(bundle("KString", &KString::from_ref(&t), d));
                    b.push(bundle("KStringCow", &KStringCow::from_ref(&t), d));
                    b.push(bundle("KStringRef", &KStringRef::from_ref(&t), d));
                }
            }
        }
        Value::Array(a) => {
            b.push(bundle("vec", a, d));
            b.push(bundle("vec_ref", &a.iter().collect::<Vec<&Value>>(), d));
            b.push(bundle("vec_option", &a.iter().cloned().map(Some).collect::<Vec<Option<Value>>>(), d));
            b.push(bundle("vec_cow", &a.iter().map(|e| ValueCow::Borrowed(e as &dyn ValueView)).collect::<Vec<ValueCow<'_>>>(), d));
            b.push(bundle("cow_from_array", &ValueCow::from(a.clone()), d));
            b.push(bundle("array_as_value", liquid::model::ArrayView::as_value(a), d));
            if !a.is_empty() && a.iter().all(|e| e.as_scalar().map_or(false, |s| s.type_name() == "whole number")) {
                b.push(bundle("vec_i64", &a.iter().map(|e| e.as_scalar().unwrap().to_integer().unwrap()).collect::<Vec<i64>>(), d));
            }
            if !a.is_empty() && a.iter().all(|e| e.as_scalar().map_or(false, |s| s.type_name() == "string")) {
                b.push(bundle("vec_string", &a.iter().map(|e| e.to_kstr().to_string()).collect::<Vec<String>>(), d));
            }
        }
        Value::Object(o) => {
            b.push(bundle("object", o, d));
            b.push(bundle("object_rebuilt", &o.iter().map(|(k, v)| (k.clone(), v.clone())).collect::<Object>(), d));
            b.push(bundle("hashmap_string", &o.iter().map(|(k, v)| (k.to_string(), v.clone())).collect::<HashMap<String, Value>>(), d));
            b.push(bundle("hashmap_kstring_ref", &o.iter().map(|(k, v)| (k.clone(), v)).collect::<HashMap<KString, &Value>>(), d));
            b.push(bundle("btreemap_kstring", &o.iter().map(|(k, v)| (k.clone(), v.clone())).collect::<BTreeMap<KString, Value>>(), d));
            b.push(bundle("btreemap_string_cow", &o.iter().map(|(k, v)| (k.to_string(), ValueCow::Borrowed(v))).collect::<BTreeMap<String, ValueCow<'_>>>(), d));
            b.push(bundle("cow_from_object", &ValueCow::from(o.clone()), d));
            b.push(bundle("object_as_value", liquid::model::ObjectView::as_value(o), d));
        }
    }
    b
}

fn emit_views(ctx: &mut Ctx, kind: &str, v: &Value) {
    let bs = value_views(v);
    ctx.emit(format!("c12 {}:{} {} => views {} {}", kind, shape(v), view_tokens(v), bs.len(), bs.join(" ")));
}

fn emit_conversions(ctx: &mut Ctx, v: &Value, witness: Option<&str>) {
    let sh = shape(v);
    let mut texts = Vec::new();
    texts_of_value(v, &mut texts);
    let orc = orc_table(&texts);
    let vt = view_tokens(v);
    let k = |dflt: &str| -> String { format!("{}:{}", witness.unwrap_or(dflt), sh) };
    let all = witness.is_none();
    if all || witness == Some("witness-date") || witness == Some("witness-state") {
        ctx.emit(format!("c12 {} {} => {}", k("tovalue"), vt, guarded(|| to_value(v))));
    }
    // from_value::<Value>: at the pinned commit numeric-looking strings come back as numbers (finding
    // C12-deserialize-any); such data goes through this view only as the fixed `witness-numstr` cases
    if (all && !has_numeric_string(v)) || witness == Some("witness-numstr") || witness == Some("witness-datestr") {
        ctx.emit(format!("c12 {} {} {} => {}", k("fromvalue"), vt, orc, guarded(|| from_value::<Value>(v))));
    }
    if all || witness == Some("witness-nan") {
        ctx.emit(format!(
            "c12 {} {} {} => {}",
            k("json"),
            vt,
            orc,
            guarded(|| {
                let s = serde_json::to_string(v).map_err(json_err)?;
                serde_json::from_str::<Value>(&s).map_err(json_err)
            })
        ));
    }
    if all {
        ctx.emit(format!(
            "c12 {} {} {} => {}",
            k("jsonv"),
            vt,
            orc,
            guarded(|| {
                let j = serde_json::to_value(v).map_err(json_err)?;
                serde_json::from_value::<Value>(j).map_err(json_err)
            })
        ));
        ctx.emit(format!("c12 valsd:{} {} => sd {}", sh, vt, sd_of(v).0));
        if let Value::Object(o) = v {
            let (sd, _) = sd_of(o);
            ctx.emit(format!("c12 serobj:Object {} => {}", sd, guarded(|| liquid::to_object(o).map(Value::Object))));
        }
        if let Value::Scalar(s) = v {
            let (sd, _) = sd_of(s);
            ctx.emit(format!("c12 sersc:Scalar {} => {}", sd, guarded(|| to_scalar(s).map(Value::Scalar))));
        }
    }
}

// ------------------------------------------------------------------------------------------------
// the derive family
// ------------------------------------------------------------------------------------------------

trait ToTD {
    fn td(&self, o: &mut Vec<String>);
}
macro_rules! td_int {
    ($t:ty, $tag:expr) => {
        impl ToTD for $t {
            fn td(&self, o: &mut Vec<String>) {
                o.push(format!("ti:{}:{}", $tag, self));
            }
        }
    };
}
td_int!(i8, "i8");
td_int!(i16, "i16");
td_int!(i32, "i32");
td_int!(i64, "i64");
td_int!(u8, "u8");
td_int!(u16, "u16");
td_int!(u32, "u32");
impl ToTD for bool {
    fn td(&self, o: &mut Vec<String>) {
        o.push(if *self { "tb1".into() } else { "tb0".into() });
    }
}
impl ToTD for f64 {
    fn td(&self, o: &mut Vec<String>) {
        o.push(f64_tok("tf64", *self));
    }
}
impl ToTD for f32 {
    fn td(&self, o: &mut Vec<String>) {
        o.push(f64_tok("tf32", f64::from(*self)));
    }
}
impl ToTD for String {
    fn td(&self, o: &mut Vec<String>) {
        o.push(format!("ts{}", hex(self)));
    }
}
impl ToTD for KString {
    fn td(&self, o: &mut Vec<String>) {
        o.push(format!("ts{}", hex(self.as_str())));
    }
}
impl ToTD for DateTime {
    fn td(&self, o: &mut Vec<String>) {
        o.push(format!("t{}", dt_tok(self)));
    }
}
impl ToTD for Date {
    fn td(&self, o: &mut Vec<String>) {
        o.push(format!("t{}", date_tok(self)));
    }
}
impl ToTD for Value {
    fn td(&self, o: &mut Vec<String>) {
        o.push("tv".into());
        enc_view(self, o);
    }
}
impl ToTD for Object {
    fn td(&self, o: &mut Vec<String>) {
        o.push("tv".into());
        enc_view(self, o);
    }
}
impl<T: ToTD> ToTD for Option<T> {
    fn td(&self, o: &mut Vec<String>) {
        match self {
            None => o.push("tn".into()),
            Some(x) => {
                o.push("to".into());
                x.td(o);
            }
        }
    }
}
impl<T: ToTD> ToTD for Vec<T> {
    fn td(&self, o: &mut Vec<String>) {
        o.push(format!("tq{}", self.len()));
        for x in self {
            x.td(o);
        }
    }
}
impl<T: ToTD> ToTD for HashMap<String, T> {
    fn td(&self, o: &mut Vec<String>) {
        o.push(format!("tm{}", self.len()));
        for (k, x) in self {
            o.push(format!("k{}", hex(k)));
            x.td(o);
        }
    }
}
impl<T: ToTD> ToTD for BTreeMap<String, T> {
    fn td(&self, o: &mut Vec<String>) {
        o.push(format!("tm{}", self.len()));
        for (k, x) in self {
            o.push(format!("k{}", hex(k)));
            x.td(o);
        }
    }
}

/// `family!{ struct Name { field ["key"]: Type, … } }`: the struct with all four derives + its TD
/// encoding (key = the identifier as serde names it).
macro_rules! family {
    ($( struct $name:ident { $( $f:ident [$k:expr] : $t:ty ),* $(,)? } )*) => {
        $(
            #[derive(Debug, Clone, PartialEq, Serialize, Deserialize, liquid::ObjectView, liquid::ValueView)]
            struct $name { $( $f: $t ),* }
            impl ToTD for $name {
                fn td(&self, o: &mut Vec<String>) {
                    let n: usize = 0 $( + { let _ = stringify!($f); 1 } )*;
                    o.push(format!("tS{}", n));
                    $( o.push(format!("k{}", hex($k))); self.$f.td(o); )*
                }
            }
            impl Fields for $name {
                fn fields() -> Vec<&'static str> { vec![ $( $k ),* ] }
            }
        )*
    };
}

trait Fields {
    fn fields() -> Vec<&'static str>;
}

family! {
    struct Scalars { b ["b"]: bool, i ["i"]: i64, j ["j"]: i32, k ["k"]: u8, s ["s"]: String, f ["f"]: f64, g ["g"]: f32 }
    struct Small { a ["a"]: u32, b ["b"]: u16, c ["c"]: i8, d ["d"]: i16, e ["e"]: KString }
    struct Opts { a ["a"]: Option<i64>, b ["b"]: Option<String>, c ["c"]: Option<Vec<i64>>, d ["d"]: Option<bool>, e ["e"]: Option<Option<i32>> }
    struct Inner { name ["name"]: String, n ["n"]: i16 }
    struct Nested { inner ["inner"]: Inner, list ["list"]: Vec<Inner>, opt ["opt"]: Option<Inner>, tags ["tags"]: Vec<String>, grid ["grid"]: Vec<Vec<i32>> }
    struct Maps { h ["h"]: HashMap<String, i64>, t ["t"]: BTreeMap<String, String>, hv ["hv"]: HashMap<String, Vec<i32>>, hs ["hs"]: BTreeMap<String, Inner> }
    struct WithValue { v ["v"]: Value, vs ["vs"]: Vec<Value>, o ["o"]: Object, ov ["ov"]: Option<Value> }
    struct Dated { day ["day"]: Date, at ["at"]: DateTime, label ["label"]: String, maybe ["maybe"]: Option<Date> }
    struct Raw { r#type ["type"]: i64, r#match ["match"]: String, plain ["plain"]: bool }
    struct Empty { }
    struct Single { only ["only"]: String }
    struct Float32 { g ["g"]: f32 }
}

fn render_globals(parser: &liquid::Parser, text: &str, globals: &dyn liquid::ObjectView) -> String {
    let r = catch_unwind(AssertUnwindSafe(|| {
        let t = match parser.parse(text) {
            Ok(t) => t,
            Err(e) => return format!("perr {}", if e.to_string().is_empty() { "nomsg" } else { "msg" }),
        };
        let mut buf = Vec::new();
        match t.render_to(&mut buf, globals) {
            Ok(()) => match String::from_utf8(buf) {
                Ok(s) => format!("ok {}", xs(&s)),
                Err(e) => format!("BADUTF8 x{}", crate::proto::hex_bytes(&e.into_bytes())),
            },
            Err(e) => format!("err {}", if e.to_string().is_empty() { "nomsg" } else { "msg" }),
        }
    }));
    r.unwrap_or_else(|_| "PANIC -".into())
}

/// does printing / iterating this value depend on the iteration order of a multi-key object?
fn order_sensitive(v: &dyn ValueView) -> bool {
    if let Some(a) = v.as_array() {
        a.values().any(order_sensitive)
    } else if let Some(o) = v.as_object() {
        o.size() > 1 || o.values().any(order_sensitive)
    } else {
        false
    }
}

fn field_templates(f: &str, v: &dyn ValueView) -> Vec<Vec<Node>> {
    let mut ts: Vec<Vec<Node>> = Vec::new();
    let cond = |c: Cond, t: &str, e: &str| Node::Cond { c, mode: true, thn: vec![text(t)], els: Some(vec![text(e)]), elsif: false };
    ts.push(vec![
        cond(Cond::Exist(var(f)), "T", "F"),
        cond(Cond::Bin(var(f), CmpOp::Eq, Expr::Lit(Value::State(State::Empty))), "E", "e"),
        cond(Cond::Bin(var(f), CmpOp::Eq, Expr::Lit(Value::State(State::Blank))), "B", "b"),
        cond(Cond::Bin(var(f), CmpOp::Eq, Expr::Lit(Value::Nil)), "N", "n"),
        cond(Cond::Bin(var(f), CmpOp::Eq, var(f)), "S", "s"),
        text("|"),
    ]);
    // `.size` of an object that has a key "size" is that entry (printing it may depend on hash order)
    if !v.as_object().map_or(false, |o| o.contains_key("size")) {
        ts.last_mut().unwrap().push(out(path(f, &["size"])));
    }
    if !order_sensitive(v) {
        ts.push(vec![text("["), out(var(f)), text("]")]);
        ts.push(vec![Node::For { x: "e".into(), rng: RangeE::Arr(var(f)), limit: None, offset: None, rev: false, body: vec![text("<"), out(var("e")), text(">")], els: Some(vec![text("none")]) }]);
        ts.push(vec![out(path(f, &["first"])), text("/"), out(path(f, &["last"])), text("/"), out(Expr::Var(f.to_string(), vec![lit_i(0)]))]);
    }
    if let Some(o) = v.as_object() {
        for (k, w) in o.iter() {
            if !order_sensitive(w) {
                ts.push(vec![text("."), out(path(f, &[k.as_str()]))]);
            }
        }
    }
    ts
}

fn td_tokens<T: ToTD>(x: &T) -> String {
    let mut o = Vec::new();
    x.td(&mut o);
    o.join(" ")
}

fn emit_family<T>(ctx: &mut Ctx, parser: &liquid::Parser, tname: &str, x: &T, witness: Option<&str>)
where
    T: ToTD + Fields + Serialize + DeserializeOwned + PartialEq + ValueView + liquid::ObjectView,
{
    let td = td_tokens(x);
    let (sd, texts) = sd_of(x);
    let view: &dyn ValueView = x;
    let b = bundle("derived", view, view);
    let tv = guarded(|| to_value(x));
    let to = guarded(|| liquid::to_object(x).map(Value::Object));
    ctx.emit(format!("c12 {}:{} {} => td {} {} {} + {}", witness.unwrap_or("td"), tname, td, sd, b, tv, to));
    if witness.is_none() {
        // `Some(None)` / `Some(Nil)` cannot be told from `None` by any serde format
        ser_lines(ctx, tname, x, if tname == "Opts" || tname == "WithValue" { "optcollapse" } else { "" });
        let _ = texts;
    }
    // templates: derived struct as globals vs. serde-converted object as globals
    let conv = liquid::to_object(x);
    for f in T::fields() {
        let fv: &dyn ValueView = match liquid::ObjectView::get(x, f) {
            Some(v) => v,
            None => continue, // (raw identifiers at the pinned commit: key is `r#type`)
        };
        for t in field_templates(f, fv) {
            let src = src_tmpl(&t);
            let o1 = render_globals(parser, &src, x);
            let o2 = match &conv {
                Ok(o) => render_globals(parser, &src, o),
                Err(_) => "err msg".into(),
            };
            let mut toks = Vec::new();
            enc_tmpl(&t, &mut toks);
            ctx.emit(format!("c12t {}:{} {} {} {} {} #{}", witness.map(|w| format!("{}-tmpl", w)).unwrap_or("tmpl".into()), tname, td, toks.join(" "), o1, o2, xs(&src)));
        }
    }
}

/// `to_value`, `to_object`, `to_scalar`, JSON and the typed round trip of any serde type
fn ser_lines<T: Serialize + DeserializeOwned + PartialEq>(ctx: &mut Ctx, tname: &str, x: &T, label: &str)
{
    let (sd, texts) = sd_of(x);
    let lab = if label.is_empty() { String::new() } else { format!("{}:", label) };
    ctx.emit(format!("c12 ser:{}{} {} => {}", lab, tname, sd, guarded(|| to_value(x))));
    ctx.emit(format!("c12 serobj:{}{} {} => {}", lab, tname, sd, guarded(|| liquid::to_object(x).map(Value::Object))));
    ctx.emit(format!("c12 sersc:{}{} {} => {}", lab, tname, sd, guarded(|| to_scalar(x).map(Value::Scalar))));
    ctx.emit(format!(
        "c12 serjson:{}{} {} {} => {}",
        lab,
        tname,
        sd,
        orc_table(&texts),
        guarded(|| {
            let s = serde_json::to_string(x).map_err(json_err)?;
            serde_json::from_str::<Value>(&s).map_err(json_err)
        })
    ));
    let rt = catch_unwind(AssertUnwindSafe(|| match to_value(x) {
        Err(_) => "toerr",
        Ok(v) => match from_value::<T>(&v) {
            Err(_) => "err",
            Ok(y) => {
                // structural identity of the serde image (floats by bits) or `==` (maps: any order)
                if sd_of(&y).0 == sd || y == *x {
                    "eq"
                } else {
                    "ne"
                }
            }
        },
    }))
    .unwrap_or("PANIC");
    ctx.emit(format!("c12 typedrt:{}{} {} => {}", lab, tname, sd, rt));
}

// serde-only family (no ValueView): enums, tuples, newtypes, wide integers, odd map keys
#[derive(Debug, Clone, PartialEq, Serialize, Deserialize)]
enum E {
    A,
    B(i32),
    C(i32, String),
    D { x: i64, y: Option<bool> },
    N(u64),
}
#[derive(Debug, Clone, PartialEq, Serialize, Deserialize)]
struct NT(u64);
#[derive(Debug, Clone, PartialEq, Serialize, Deserialize)]
struct TS(i8, u64, String);
#[derive(Debug, Clone, PartialEq, Serialize, Deserialize)]
struct UnitS;
#[derive(Debug, Clone, PartialEq, Serialize, Deserialize)]
struct Wide {
    a: u64,
    b: i64,
    c: u32,
    d: Option<u64>,
    e: Vec<u64>,
}
#[derive(Debug, Clone, PartialEq, Serialize, Deserialize)]
struct Wide128 {
    a: i128,
    b: u128,
}
#[derive(Debug, Clone, PartialEq, Serialize, Deserialize)]
struct WithEnum {
    e: E,
    es: Vec<E>,
    m: BTreeMap<String, E>,
}
#[derive(Debug, Clone, PartialEq, Serialize, Deserialize)]
struct Chars {
    c: char,
    u: (),
    t: (i8, String),
    nt: NT,
}

const U64S: &[u64] = &[
    0,
    1,
    255,
    4294967295,
    4294967296,
    9007199254740993,
    i64::MAX as u64 - 1,
    i64::MAX as u64,
    i64::MAX as u64 + 1,
    i64::MAX as u64 + 2,
    u64::MAX - 1,
    u64::MAX,
    1 << 63,
    (1 << 63) + 1025,
    12345678901234567890,
];

fn gen_u64(rng: &mut Rng) -> u64 {
    if rng.chance(3, 4) {
        *rng.pick(U64S)
    } else {
        rng.next() >> rng.below(64)
    }
}

fn gen_e(g: &mut Gen) -> E {
    match g.rng.below(5) {
        0 => E::A,
        1 => E::B(g.int() as i32),
        2 => E::C(g.int() as i32, g.string()),
        3 => E::D { x: g.int(), y: if g.rng.chance(1, 2) { Some(g.rng.chance(1, 2)) } else { None } },
        _ => E::N(gen_u64(&mut g.rng)),
    }
}

fn f32_exact(g: &mut Gen) -> f32 {
    // values whose `f32` and `f64` shortest decimal texts coincide (dyadic, few bits)
    let k = g.rng.range(-64, 64) as f32;
    match g.rng.below(4) {
        0 => k / 8.0,
        1 => k,
        2 => k * 1024.0,
        _ => k / 64.0,
    }
}

fn emit_serde_family(ctx: &mut Ctx, g: &mut Gen, rounds: usize) {
    // integers across the u64 / i64 boundaries through every serializer
    for &u in U64S {
        ser_lines(ctx, "u64", &u, "boundary");
        ser_lines(ctx, "Option<u64>", &Some(u), "boundary");
        ser_lines(ctx, "NT", &NT(u), "boundary");
        ser_lines(ctx, "(u64,i64)", &(u, u as i64), "boundary");
        ser_lines(ctx, "Vec<u64>", &vec![u, 1], "boundary");
        ser_lines(ctx, "E::N", &E::N(u), "boundary");
        ser_lines(ctx, "i128", &(u as i128 - (1i128 << 63)), "boundary");
        ser_lines(ctx, "u128", &(u as u128 * 3), "boundary");
        let mut m = BTreeMap::new();
        m.insert(u, u);
        ser_lines(ctx, "BTreeMap<u64,u64>", &m, "boundary");
        // the key alone is at the boundary (the value always fits)
        let mut mk = BTreeMap::new();
        mk.insert(u, true);
        mk.insert(1u64, false);
        ser_lines(ctx, "BTreeMap<u64,bool>", &mk, "boundary");
        let mut mi = BTreeMap::new();
        mi.insert(u as i64, "v".to_string());
        mi.insert(-1i64, "m".to_string());
        ser_lines(ctx, "BTreeMap<i64,String>", &mi, "boundary");
    }
    for &i in INTS {
        ser_lines(ctx, "i64", &i, "boundary");
        ser_lines(ctx, "i32", &(i as i32), "boundary");
        ser_lines(ctx, "u8", &(i as u8), "boundary");
        ser_lines(ctx, "i8", &(i as i8), "boundary");
        ser_lines(ctx, "u16", &(i as u16), "boundary");
        ser_lines(ctx, "u32", &(i as u32), "boundary");
        ser_lines(ctx, "i16", &(i as i16), "boundary");
    }
    ser_lines(ctx, "()", &(), "");
    ser_lines(ctx, "UnitS", &UnitS, "");
    ser_lines(ctx, "Option<Option<i32>>", &Some(None::<i32>), "optcollapse");
    ser_lines(ctx, "Option<Option<i32>>", &Some(Some(3)), "");
    ser_lines(ctx, "Option<()>", &Some(()), "optcollapse");
    ser_lines(ctx, "char", &'é', "");
    ser_lines(ctx, "CString", &std::ffi::CString::new("ab\u{7f}").unwrap(), "");
    ser_lines(ctx, "HashMap<bool,i32>", &HashMap::from([(true, 1)]), "");
    ser_lines(ctx, "HashMap<char,i32>", &HashMap::from([('c', 1)]), "");
    ser_lines(ctx, "BTreeMap<i32,String>", &BTreeMap::from([(1, "x".to_string()), (-2, "y".to_string())]), "");
    ser_lines(ctx, "BTreeMap<E,i32>", &BTreeMap::<String, i32>::new(), "");
    ser_lines(ctx, "HashMap<Option<String>,i32>", &HashMap::from([(Some("k".to_string()), 1)]), "");
    ser_lines(ctx, "Vec<(String,i32)>", &vec![("a".to_string(), 1)], "");
    ser_lines(ctx, "f32", &0.1f32, "");
    for _ in 0..rounds {
        let w = Wide { a: gen_u64(&mut g.rng), b: g.int(), c: g.int() as u32, d: if g.rng.chance(1, 2) { Some(gen_u64(&mut g.rng)) } else { None }, e: (0..g.rng.below(3)).map(|_| gen_u64(&mut g.rng)).collect() };
        ser_lines(ctx, "Wide", &w, "");
        let w = Wide128 { a: (g.int() as i128) * (g.rng.below(5) as i128), b: gen_u64(&mut g.rng) as u128 * g.rng.below(3) as u128 };
        ser_lines(ctx, "Wide128", &w, "");
        ser_lines(ctx, "E", &gen_e(g), "");
        let we = WithEnum { e: gen_e(g), es: (0..g.rng.below(3)).map(|_| gen_e(g)).collect(), m: (0..g.rng.below(3)).map(|_| (g.key(), gen_e(g))).collect() };
        ser_lines(ctx, "WithEnum", &we, "");
        ser_lines(ctx, "TS", &TS(g.int() as i8, gen_u64(&mut g.rng), g.string()), "");
        let c = Chars { c: *g.rng.pick(&['a', 'é', '1', ' ', '日']), u: (), t: (g.int() as i8, g.string()), nt: NT(gen_u64(&mut g.rng)) };
        ser_lines(ctx, "Chars", &c, "");
        ser_lines(ctx, "(i64,f64,String,bool)", &(g.int(), g.float(), g.string(), g.rng.chance(1, 2)), "");
        ser_lines(ctx, "BTreeMap<i64,u64>", &(0..g.rng.below(3)).map(|_| (g.int(), gen_u64(&mut g.rng))).collect::<BTreeMap<i64, u64>>(), "");
    }
}

fn gen_inner(g: &mut Gen) -> Inner {
    Inner { name: g.string(), n: g.int() as i16 }
}

fn emit_derive_family(ctx: &mut Ctx, parser: &liquid::Parser, g: &mut Gen, rounds: usize) {
    emit_family(ctx, parser, "Empty", &Empty {}, None);
    for _ in 0..rounds {
        let x = Scalars { b: g.rng.chance(1, 2), i: g.int(), j: g.int() as i32, k: g.int() as u8, s: g.string(), f: g.float(), g: f32_exact(g) };
        emit_family(ctx, parser, "Scalars", &x, None);
        let x = Small { a: g.int() as u32, b: g.int() as u16, c: g.int() as i8, d: g.int() as i16, e: KString::from_string(g.string()) };
        emit_family(ctx, parser, "Small", &x, None);
        let opt = |g: &mut Gen| g.rng.chance(1, 2);
        let x = Opts {
            a: if opt(g) { Some(g.int()) } else { None },
            b: if opt(g) { Some(g.string()) } else { None },
            c: if opt(g) { Some((0..g.rng.below(3)).map(|_| g.int()).collect()) } else { None },
            d: if opt(g) { Some(opt(g)) } else { None },
            e: match g.rng.below(3) {
                0 => None,
                1 => Some(None),
                _ => Some(Some(g.int() as i32)),
            },
        };
        emit_family(ctx, parser, "Opts", &x, None);
        let x = Nested {
            inner: gen_inner(g),
            list: (0..g.rng.below(3)).map(|_| gen_inner(g)).collect(),
            opt: if opt(g) { Some(gen_inner(g)) } else { None },
            tags: (0..g.rng.below(4)).map(|_| g.string()).collect(),
            grid: (0..g.rng.below(3)).map(|_| (0..g.rng.below(3)).map(|_| g.int() as i32).collect()).collect(),
        };
        emit_family(ctx, parser, "Nested", &x, None);
        let x = Maps {
            h: (0..g.rng.below(4)).map(|_| (g.key(), g.int())).collect(),
            t: (0..g.rng.below(4)).map(|_| (g.key(), g.string())).collect(),
            hv: (0..g.rng.below(3)).map(|_| (g.key(), (0..g.rng.below(3)).map(|_| g.int() as i32).collect())).collect(),
            hs: (0..g.rng.below(3)).map(|_| (g.key(), gen_inner(g))).collect(),
        };
        emit_family(ctx, parser, "Maps", &x, None);
        let depth = 1 + g.rng.below(2);
        let x = WithValue {
            v: g.value(depth),
            vs: (0..g.rng.below(3)).map(|_| g.value(1)).collect(),
            o: match g.value(2) {
                Value::Object(o) => o,
                other => {
                    let mut o = Object::new();
                    o.insert("w".into(), other);
                    o
                }
            },
            ov: if opt(g) { Some(g.value(1)) } else { None },
        };
        emit_family(ctx, parser, "WithValue", &x, None);
        let x = Dated { day: g.date(), at: g.datetime(), label: g.string(), maybe: if opt(g) { Some(g.date()) } else { None } };
        emit_family(ctx, parser, "Dated", &x, None);
        emit_family(ctx, parser, "Single", &Single { only: g.string() }, None);
    }
}

fn witnesses(ctx: &mut Ctx, parser: &liquid::Parser) {
    // by design (counterexample theorems of Props/C12.lean, replayed here)
    emit_conversions(ctx, &Value::scalar(Date::from_ymd(2022, 3, 2)), Some("witness-date"));
    emit_conversions(ctx, &Value::State(State::Blank), Some("witness-state"));
    emit_conversions(ctx, &Value::scalar("2022-03-02"), Some("witness-datestr"));
    emit_conversions(ctx, &Value::scalar(f64::NAN), Some("witness-nan"));
    let d = Dated { day: Date::from_ymd(2022, 3, 2), at: DateTime::from_str("2016-02-16 10:00:00 +0100").unwrap(), label: "l".into(), maybe: None };
    emit_family(ctx, parser, "Dated", &d, Some("witness-tddate"));
    // genuine findings at the pinned commit (known_findings.json)
    emit_conversions(ctx, &Value::scalar("123"), Some("witness-numstr"));
    emit_conversions(ctx, &Value::scalar("1e3"), Some("witness-numstr"));
    emit_conversions(ctx, &Value::Array(vec![Value::scalar("-0"), Value::scalar("inf")]), Some("witness-numstr"));
    emit_family(ctx, parser, "Raw", &Raw { r#type: 3, r#match: "m".into(), plain: true }, Some("witness-rawident"));
    emit_family(ctx, parser, "Float32", &Float32 { g: 0.1 }, Some("witness-f32"));
}

pub fn run(ctx: &mut Ctx) {
    let parser = liquid::ParserBuilder::with_stdlib().build().unwrap();
    witnesses(ctx, &parser);
    let (n_tame, n_wild, fam, sfam) = if ctx.tier_thorough { (40000, 20000, 1500, 600) } else { (2500, 1500, 60, 40) };
    // exhaustive small scope: every pool scalar alone, in a 1-array and in a single-key object
    let mut pool: Vec<Value> = vec![Value::Nil];
    pool.extend(INTS.iter().map(|i| Value::scalar(*i)));
    pool.extend(FLOATS.iter().map(|f| Value::scalar(*f)));
    pool.extend([Value::scalar(true), Value::scalar(false)]);
    pool.extend(STRINGS.iter().map(|s| Value::scalar(s.to_string())));
    pool.extend(DATETIMES.iter().map(|s| Value::scalar(DateTime::from_str(s).unwrap())));
    pool.extend(DATES.iter().map(|(y, m, d)| Value::scalar(Date::from_ymd(*y, *m, *d))));
    pool.extend([State::Truthy, State::DefaultValue, State::Empty, State::Blank].iter().map(|s| Value::State(*s)));
    pool.push(Value::Array(vec![]));
    pool.push(Value::Object(Object::new()));
    for v in &pool {
        emit_views(ctx, "views", v);
        emit_conversions(ctx, v, None);
        let a = Value::Array(vec![v.clone()]);
        emit_views(ctx, "views", &a);
        emit_conversions(ctx, &a, None);
        let mut o = Object::new();
        o.insert("k".into(), v.clone());
        let o = Value::Object(o);
        emit_views(ctx, "views", &o);
        emit_conversions(ctx, &o, None);
    }
    // random data, depth <= 4
    let mut g = Gen { rng: Rng::new(ctx.seed), wild: false };
    for i in 0..n_tame {
        let v = g.value(1 + i % 4);
        emit_views(ctx, "views", &v);
        emit_conversions(ctx, &v, None);
    }
    g.wild = true;
    for i in 0..n_wild {
        let v = g.value(1 + i % 4);
        emit_views(ctx, "views", &v);
        emit_conversions(ctx, &v, None);
    }
    // multi-key objects: the same entries built several times (fresh hash order each time)
    for _ in 0..(n_tame / 20) {
        let n = 2 + g.rng.below(6);
        let entries: Vec<(String, Value)> = (0..n).map(|i| (format!("{}{}", g.key(), i), g.value(1))).collect();
        for _ in 0..3 {
            let o: Object = entries.iter().map(|(k, v)| (KString::from_ref(k), v.clone())).collect();
            let v = Value::Object(o);
            emit_views(ctx, "views", &v);
            emit_conversions(ctx, &v, None);
        }
    }
    g.wild = false;
    emit_derive_family(ctx, &parser, &mut g, fam);
    g.wild = true;
    emit_serde_family(ctx, &mut g, sfam);
}
