//! C02: rendering is total.  (a) every filter (stdlib + jekyll/shopify/extra) x every input kind x
//! every argument kind at arity 0, 1 and 2, type-confused on purpose; (b) generated (template, data)
//! pairs using every tag and block, output tags with chains of modelled filters (compared with the
//! model) and of arbitrary filters (oracle only).  Oracle: no panic, valid UTF-8, errors carry a message.
use crate::ast::*;
use crate::filters::{apply, filter_case, language};
use crate::gen::Gen;
use crate::run::*;
use crate::Ctx;
use liquid_core::model::{Object, Value};

fn pool() -> Vec<(&'static str, Value)> {
    let mut o = Object::new();
    o.insert("k".into(), Value::scalar(1i64));
    let mixed: Vec<Value> = (0..40)
        .map(|i| match i % 4 {
            0 => Value::scalar(i as i64),
            1 => Value::scalar(format!("s{}", i)),
            2 => Value::Nil,
            _ => Value::scalar(i as f64 + 0.5),
        })
        .collect();
    // the same with strings that spell numbers, bools and a date in between
    let mixed_num: Vec<Value> = (0..40)
        .map(|i| match i % 5 {
            0 => Value::scalar(i as i64),
            1 => Value::scalar(format!("{}", 40 - i)),
            2 => Value::scalar(i as f64 + 0.5),
            3 => Value::scalar(i % 2 == 0),
            _ => Value::scalar(format!("{}.5", i)),
        })
        .collect();
    let arrobj: Vec<Value> = (0..3)
        .map(|i| {
            let mut o = Object::new();
            o.insert(if i == 2 { "p".into() } else { "k".into() }, Value::scalar(2 - i as i64));
            Value::Object(o)
        })
        .collect();
    let mut o64 = Object::new();
    for k in 0..64 {
        o64.insert(format!("k{:02}", k).into(), Value::scalar(k as i64));
    }
    vec![
        // sizes and byte positions at powers of two: exactly 64 entries; a multi-byte character across byte 128
        ("obj64", Value::Object(o64)),
        ("arr65", Value::Array((0..65i64).map(Value::scalar).collect())),
        ("long128", Value::scalar(format!("{}\u{e9}\u{65e5}\u{672c}\u{8a9e}{}", "a".repeat(127), "\u{e9}".repeat(18)))),
        ("arrobj", Value::Array(arrobj)),
        ("arr40n", Value::Array(mixed_num)),
        ("ampuni", Value::scalar("\u{6771}\u{4eac} & \u{65e5}\u{672c}\u{8a9e} &lt\u{e9} &amp;\u{65e5} &#39\u{e9}\u{1f600}&quot")),
        ("hugenum", Value::scalar("1455616800000000")),
        // first characters whose upper / lower case form has another UTF-8 length
        ("case1", Value::scalar("\u{131}rmak \u{17f}o")),
        ("case2", Value::scalar("\u{fb01}sh \u{390}")),
        ("case3", Value::scalar("\u{149}ab\u{130}")),
        ("y10k", Value::scalar("253402300800")),
        ("minstr", Value::scalar(i64::MIN.to_string())),
        ("nil", Value::Nil),
        ("true", Value::scalar(true)),
        ("zero", Value::scalar(0i64)),
        ("neg", Value::scalar(-1i64)),
        ("min", Value::scalar(i64::MIN)),
        ("max", Value::scalar(i64::MAX)),
        ("big", Value::scalar(10_000i64)),
        ("half", Value::scalar(0.5f64)),
        ("tie", Value::scalar(2.5f64)),
        ("empty", Value::scalar("")),
        ("blank", Value::scalar(" \t")),
        ("abc", Value::scalar("abc def")),
        ("uni", Value::scalar("e\u{301}é😀")),
        ("num", Value::scalar("12")),
        ("date", Value::scalar("2020-02-29 10:00:00 +0100")),
        ("arr", Value::Array(vec![Value::scalar(1i64), Value::scalar("a"), Value::Nil])),
        ("arr0", Value::Array(vec![])),
        ("obj", Value::Object(o)),
        ("arr40", Value::Array(mixed)),
    ]
}

/// modelled filters with the numbers of positional arguments their parsers accept
const MODELLED: &[(&str, usize, usize)] = &[
    ("plus", 1, 1), ("minus", 1, 1), ("times", 1, 1), ("modulo", 1, 1), ("abs", 0, 0), ("at_least", 1, 1), ("at_most", 1, 1),
    ("divided_by", 1, 1), ("sort", 0, 1), ("uniq", 0, 0), ("reverse", 0, 0), ("compact", 0, 1), ("concat", 1, 1),
    ("first", 0, 0), ("last", 0, 0), ("size", 0, 0), ("join", 0, 1), ("escape", 0, 0), ("escape_once", 0, 0),
    ("strip_html", 0, 0), ("url_encode", 0, 0), ("url_decode", 0, 0),
];
const UNMODELLED: &[&str] = &[
    "append", "prepend", "upcase", "downcase", "capitalize", "strip", "lstrip", "rstrip", "strip_newlines", "replace",
    "remove", "split", "truncate", "truncatewords", "slice", "newline_to_br", "default", "round", "ceil", "floor",
    "map", "where", "sort_natural", "date",
];

pub fn run(ctx: &mut Ctx) {
    let lang = language(true);
    let pool = pool();
    let mut names: Vec<String> = lang.filters.plugin_names().map(|s| s.to_string()).collect();
    names.sort();
    // ---- (a) filter matrix ----
    let arg2: Vec<usize> = if ctx.tier_thorough { (0..pool.len()).collect() } else { vec![0, 2, 3, 5, 7, 9, 11, 15] };
    for name in &names {
        for (ik, input) in &pool {
            let obs = apply(&lang, name, input, &[]);
            ctx.emit(filter_case("c02f", &format!("f0:{}", ik), name, input, &[], &obs));
            for (_, a) in &pool {
                let args = [a.clone()];
                let obs = apply(&lang, name, input, &args);
                ctx.emit(filter_case("c02f", &format!("f1:{}", ik), name, input, &args, &obs));
            }
            for i in &arg2 {
                for j in &arg2 {
                    let args = [pool[*i].1.clone(), pool[*j].1.clone()];
                    let obs = apply(&lang, name, input, &args);
                    ctx.emit(filter_case("c02f", &format!("f2:{}", ik), name, input, &args, &obs));
                }
            }
        }
    }
    // ---- (a') sort stress: long arrays mixing integers with strings (also strings that spell numbers);
    // a comparator that is not a total order makes the standard library's sort panic on some of them ----
    {
        let mut r = crate::rng::Rng::new(0x50_57_C02);
        for j in 0..40usize {
            let len = 24 + j;
            let arr: Vec<Value> = (0..len)
                .map(|_| match r.below(11) {
                    k @ 0..=5 => Value::scalar(k as i64),
                    6 => Value::scalar("a"),
                    7 => Value::scalar("b"),
                    8 => Value::scalar("c"),
                    9 => Value::scalar("0"),
                    _ => Value::scalar("3"),
                })
                .collect();
            let input = Value::Array(arr);
            for name in ["sort", "sort_natural", "uniq"] {
                let obs = apply(&lang, name, &input, &[]);
                ctx.emit(filter_case("c02f", "f0:stress", name, &input, &[], &obs));
            }
        }
    }
    // jekyll's `sort` has the stdlib filter's name: a language of its own, oracle only
    {
        let mut jek = liquid_core::parser::Language::empty();
        let t: Box<dyn liquid_core::ParseFilter> = liquid_lib::jekyll::Sort.into();
        jek.filters.register("sort".to_owned(), t);
        for (ik, input) in &pool {
            let obs = apply(&jek, "sort", input, &[]);
            ctx.emit(filter_case("c02f", &format!("f0:{}", ik), "jekyll_sort", input, &[], &obs));
            for (_, a) in &pool {
                let args = [a.clone()];
                let obs = apply(&jek, "sort", input, &args);
                ctx.emit(filter_case("c02f", &format!("f1:{}", ik), "jekyll_sort", input, &args, &obs));
                for nils in ["first", "last", "x"] {
                    let args = [a.clone(), Value::scalar(nils)];
                    let obs = apply(&jek, "sort", input, &args);
                    ctx.emit(filter_case("c02f", &format!("f2:{}", ik), "jekyll_sort", input, &args, &obs));
                }
            }
        }
    }
    // ---- (b) generated templates ----
    let n = if ctx.tier_thorough { 300_000 } else { 12_000 };
    let mut g = Gen::new(ctx.seed ^ 0xC02);
    g.allow_partials = true;
    for i in 0..n {
        g.allow_errors = i % 2 == 0;
        g.partials = vec![];
        g.dynamic_names = false;
        let p1 = g.body(2, 3);
        let partials: Vec<PartialDef> = vec![("p1".into(), Ok(p1))];
        g.partials = vec!["p1".into()];
        let mut t = g.body(3, 4);
        // output tags with filter chains
        let oracle_only = i % 3 == 0;
        let nf = 1 + g.rng.below(3);
        for _ in 0..nf {
            let chain_len = 1 + g.rng.below(3);
            let mut fs = Vec::new();
            for _ in 0..chain_len {
                let (name, nargs) = if oracle_only {
                    (*g.rng.pick(UNMODELLED), g.rng.below(3))
                } else {
                    let (n, lo, hi) = *g.rng.pick(MODELLED);
                    (n, lo + g.rng.below(hi - lo + 1))
                };
                let args: Vec<Expr> = (0..nargs)
                    .map(|_| match g.rng.below(4) {
                        0 => lit_i(g.rng.range(-3, 9)),
                        1 => lit_s(*g.rng.pick(&["", ",", "a", "<b>&amp;", "%41+é"])),
                        2 => var("arr"),
                        _ => g.e(),
                    })
                    .collect();
                fs.push(FCall { name: name.to_string(), args });
            }
            let entry = match g.rng.below(4) {
                0 => lit_i(g.rng.range(-5, 20)),
                1 => lit_s(*g.rng.pick(&["x<y>&\"", "a b  c", "é", ""])),
                2 => var("arr"),
                _ => g.e(),
            };
            let pos = g.rng.below(t.len() + 1);
            t.insert(pos, Node::Output(entry, fs));
        }
        let data = g.data();
        let parser = build_parser(&partials, Policy::Eager);
        let obs = render_text(&parser, &src_tmpl(&t), &data);
        ctx.emit(render_case("c02", if oracle_only { "oracle-tpl" } else { "tpl" }, &t, &data, &partials, &obs));
    }
    // ---- (d) cycle tags whose register keys coincide although the tags differ (the key of an unnamed
    // cycle is its values joined by `-`, and `-` may occur inside an identifier; a group name may equal
    // a single cycled variable): a mismatch is an error, never an index out of range ----
    {
        let parser = build_parser(&[], Policy::Eager);
        let mut d = Object::new();
        for (k, v) in [("a", "A"), ("b", "B"), ("x", "X"), ("a-b", "AB"), ("p", "P")] {
            d.insert(k.into(), Value::scalar(v));
        }
        let texts = [
            "{% cycle a, b %}|{% cycle a-b %}",
            "{% cycle a, b %}{% cycle a, b %}|{% cycle a-b %}",
            "{% cycle a-b %}|{% cycle a, b %}|{% cycle a-b %}",
            "{% cycle x: 'p', 'q' %}|{% cycle x %}",
            "{% cycle x: 'p', 'q' %}{% cycle x: 'p', 'q' %}|{% cycle x %}|{% cycle x %}",
            "{% for i in (1..3) %}{% cycle a, b %}{% cycle a-b %}{% endfor %}",
            "{% for i in (1..3) %}{% cycle 'g': a, b, x %}{% cycle 'g': a %}{% endfor %}",
            "{% cycle 'a-b': 1, 2, 3 %}{% cycle 'a-b': 1, 2, 3 %}|{% cycle a, b %}",
            "{% cycle 1, 2 %}{% cycle 1, 2 %}|{% cycle 1-2 %}",
        ];
        for t in texts {
            let obs = render_text(&parser, t, &d);
            let ok = !matches!(obs, Obs::Panic(_) | Obs::BadUtf8(_));
            ctx.emit(format!("law cycle-keys render-never-panics {} {}", if ok { "ok" } else { "fail" }, crate::proto::xs(&format!("{} => {}", t, obs.tokens()))));
        }
    }
    // ---- (c) error paths over wide / long data: an error message may quote the offending value or
    // list the available keys; building it must not fail either ----
    {
        let titles: Vec<String> = vec![
            format!("{}\u{e9}\u{65e5}\u{672c}{}", "a".repeat(127), "\u{e9}".repeat(18)),
            "\u{65e5}\u{672c}\u{8a9e}\u{306e}\u{3068}\u{3066}\u{3082}\u{9577}\u{3044}\u{984c}\u{540d}".repeat(6),
            "a".repeat(300),
            "\u{e9}".repeat(150),
            format!("{}\u{1f600}", "b".repeat(253)),
        ];
        let parser = build_parser(&[], Policy::Eager);
        for n in [1usize, 63, 64, 65, 128] {
            let mut w = Object::new();
            for k in 0..n {
                w.insert(format!("k{:03}", k).into(), Value::scalar(k as i64));
            }
            for title in &titles {
                let mut data = Object::new();
                data.insert("w".into(), Value::Object(w.clone()));
                data.insert("title".into(), Value::scalar(title.clone()));
                let each = |body: Vec<Node>| Node::For { x: "x".into(), rng: RangeE::Arr(path("w", &["missing"])), limit: None, offset: None, rev: false, body, els: None };
                let templates: Vec<Vec<Node>> = vec![
                    vec![text("a"), out(path("w", &["missing"]))],
                    vec![out(Expr::Var("w".into(), vec![var("title")]))],
                    vec![each(vec![text("x")])],
                    vec![Node::Assign("y".into(), path("w", &["missing", "deeper"]), vec![])],
                    vec![Node::Cond { c: Cond::Exist(path("w", &["missing"])), mode: true, thn: vec![text("y")], els: Some(vec![text("n")]), elsif: false }],
                    vec![Node::Case { target: var("title"), arms: vec![(vec![lit_s("x")], vec![text("a")])], els: Some(vec![text("b"), out(var("nope"))]), comma: true }],
                    vec![Node::Case { target: var("title"), arms: vec![(vec![var("title")], vec![out(path("title", &["nope"]))])], els: None, comma: true }],
                    vec![Node::Include(var("title"), vec![])],
                    vec![Node::Render(var("title"), RForm::Plain, vec![])],
                    vec![Node::For { x: "i".into(), rng: RangeE::Counted(lit_i(1), var("title")), limit: None, offset: None, rev: false, body: vec![text("x")], els: None }],
                    vec![Node::Output(lit_i(1), vec![FCall { name: "plus".into(), args: vec![var("title")] }])],
                    vec![Node::Output(var("title"), vec![FCall { name: "divided_by".into(), args: vec![lit_i(0)] }])],
                    vec![Node::Cycle { name: None, vals: vec![var("title"), lit_s("b")] }, Node::Cycle { name: None, vals: vec![var("title"), lit_s("b")] }],
                    vec![Node::For { x: "i".into(), rng: RangeE::Arr(var("w")), limit: Some(var("title")), offset: None, rev: false, body: vec![text("x")], els: None }],
                ];
                for t in templates {
                    let obs = render_text(&parser, &src_tmpl(&t), &data);
                    ctx.emit(render_case("c02", "errpath", &t, &data, &[], &obs));
                }
            }
        }
    }
}
