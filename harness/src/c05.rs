//! C05: loops visit exactly the selected elements, with truthful loop metadata.
//! Enumerates the property's grid: collection length 0..6 × offset {∅,0..8} × limit {∅,0..8} ×
//! reversed × cols {∅,1..4}, for arrays, ranges and single-key objects, plus break/continue at
//! every iteration index of two nested loops, plus random larger instances.
use crate::ast::*;
use crate::rng::Rng;
use crate::run::*;
use crate::Ctx;
use liquid_core::model::{Object, Value};

fn fields_body(obj: &str, fields: &[&str], item: &str) -> Vec<Node> {
    let mut b = vec![text("["), out(var(item))];
    for f in fields {
        b.push(text(":"));
        b.push(out(path(obj, &[f])));
    }
    b.push(text("]"));
    b
}

pub const FOR_FIELDS: &[&str] = &["index", "index0", "rindex", "rindex0", "first", "last", "length"];
pub const TR_FIELDS: &[&str] =
    &["index", "index0", "rindex", "rindex0", "first", "last", "length", "col", "col0", "col_first", "col_last"];

fn on(v: &Option<i64>) -> String {
    match v {
        Some(i) => i.to_string(),
        None => "_".into(),
    }
}

fn opt_lit(v: Option<i64>) -> Option<Expr> {
    v.map(lit_i)
}

fn arr_data(n: usize) -> Object {
    let mut o = Object::new();
    o.insert("a".into(), Value::Array((0..n).map(|i| Value::scalar(10 + i as i64)).collect()));
    o.insert("lo".into(), Value::scalar(3i64));
    o.insert("hi".into(), Value::scalar(2 + n as i64));
    let mut single = Object::new();
    single.insert("k".into(), Value::scalar("v"));
    o.insert("o1".into(), Value::Object(single));
    o.insert("s".into(), Value::scalar("str"));
    o.insert("z".into(), Value::Nil);
    o
}

fn case(ctx: &mut Ctx, parser: &liquid::Parser, kind: &str, t: Vec<Node>, data: &Object) {
    let obs = render_text(parser, &src_tmpl(&t), data);
    ctx.emit(render_case("c05", kind, &t, data, &[], &obs));
}

pub fn run(ctx: &mut Ctx) {
    let parser = build_parser(&[], Policy::Eager);
    // `break` / `continue` in the else branch of an inner loop that selects nothing belong to the
    // ENCLOSING loop (the inner loop has no iteration they could refer to)
    for intr in [Node::Break, Node::Continue] {
        for (rows, lim) in [("rows", None), ("rows", Some(0i64)), ("rows2", None)] {
            let inner = Node::For { x: "x".into(), rng: RangeE::Arr(var("row")), limit: lim.map(lit_i), offset: None, rev: false,
                body: vec![out(var("x"))], els: Some(vec![text("empty"), intr.clone(), text("never")]) };
            let t = vec![Node::For { x: "row".into(), rng: RangeE::Arr(var(rows)), limit: None, offset: None, rev: false,
                body: vec![text("<"), out(path("forloop", &["index"])), text(":"), inner, text("|end>")], els: None }, text("after")];
            let mut d = Object::new();
            d.insert("rows".into(), Value::Array(vec![Value::Array(vec![Value::scalar(1i64), Value::scalar(2i64)]), Value::Array(vec![]), Value::Array(vec![Value::scalar(3i64)])]));
            d.insert("rows2".into(), Value::Array(vec![Value::Array(vec![]), Value::Array(vec![Value::scalar(7i64)]), Value::Array(vec![])]));
            // reference, from the statement alone: the interrupt in the else branch acts on the outer loop
            let rows_v: Vec<Vec<i64>> = if rows == "rows" { vec![vec![1, 2], vec![], vec![3]] } else { vec![vec![], vec![7], vec![]] };
            let mut want = String::new();
            for (r, row) in rows_v.iter().enumerate() {
                want.push_str(&format!("<{}:", r + 1));
                let sel: Vec<i64> = if lim == Some(0) { vec![] } else { row.clone() };
                if sel.is_empty() {
                    want.push_str("empty");
                    if matches!(intr, Node::Break) {
                        break;
                    } else {
                        continue;
                    }
                }
                for x in sel {
                    want.push_str(&x.to_string());
                }
                want.push_str("|end>");
            }
            want.push_str("after");
            case(ctx, &parser, &format!("else-interrupt:{}", crate::proto::hex(&want)), t, &d);
        }
    }
    // collections whose elements are (or end in) nil: nil is an element like any other -- it is selected,
    // counted and visited; a window larger than the collection does not invent or lose one
    {
        let n_ = Value::Nil;
        let s_ = |t: &str| Value::scalar(t.to_string());
        let arrays: Vec<Vec<Value>> = vec![
            vec![s_("a"), s_("b"), n_.clone()], vec![n_.clone()], vec![n_.clone(), n_.clone()], vec![Value::scalar(1i64), n_.clone()],
            vec![n_.clone(), Value::scalar(1i64), n_.clone()], vec![n_.clone(), s_("z")], vec![Value::scalar(false), n_.clone(), Value::scalar(false)],
        ];
        for arr in arrays {
            let mut d = Object::new();
            d.insert("a".into(), Value::Array(arr.clone()));
            let len = arr.len() as i64;
            for off in [None, Some(0i64), Some(1), Some(2)] {
                for lim in [None, Some(0i64), Some(1), Some(len), Some(len + 1), Some(len + 3)] {
                    for rev in [false, true] {
                        let t = vec![Node::For { x: "x".into(), rng: RangeE::Arr(var("a")), limit: opt_lit(lim), offset: opt_lit(off), rev, body: fields_body("forloop", FOR_FIELDS, "x"), els: Some(vec![text("EMPTY")]) }];
                        case(ctx, &parser, &format!("for-array:{}:{}:{}", on(&off), on(&lim), rev as u8), t, &d);
                    }
                    for cols in [None, Some(2i64)] {
                        let t = vec![Node::TableRow { x: "x".into(), rng: RangeE::Arr(var("a")), cols: opt_lit(cols), limit: opt_lit(lim), offset: opt_lit(off), body: fields_body("tablerow", TR_FIELDS, "x") }];
                        case(ctx, &parser, &format!("tablerow:{}:{}:{}", on(&off), on(&lim), on(&cols)), t, &d);
                    }
                }
            }
        }
    }
    // `break` / `continue` reached inside an INCLUDED partial (include shares the caller's state) act on
    // the for loop of the including template, at every iteration index and at both nesting levels
    {
        let guard: Vec<Node> = vec![
            Node::Cond { c: Cond::Bin(var("i"), CmpOp::Eq, var("skip")), mode: true, thn: vec![Node::Continue], els: None, elsif: false },
            Node::Cond { c: Cond::Bin(var("i"), CmpOp::Eq, var("stop")), mode: true, thn: vec![Node::Break], els: None, elsif: false },
        ];
        let ps: Vec<PartialDef> = vec![("guard".into(), Ok(guard))];
        let pparser = build_parser(&ps, Policy::Eager);
        for skip in 0..=5i64 {
            for stop in 0..=5i64 {
                let mut d = Object::new();
                d.insert("skip".into(), Value::scalar(skip));
                d.insert("stop".into(), Value::scalar(stop));
                // single loop
                let t = vec![Node::For { x: "i".into(), rng: RangeE::Counted(lit_i(1), lit_i(4)), limit: None, offset: None, rev: false,
                    body: vec![text("["), out(var("i")), Node::Include(lit_s("guard"), vec![]), text(":"), out(path("forloop", &["index"])), text("]")], els: None }, text("|after")];
                let mut want = String::new();
                for i in 1..=4i64 {
                    want.push_str(&format!("[{}", i));
                    if i == skip {
                        continue;
                    }
                    if i == stop {
                        break;
                    }
                    want.push_str(&format!(":{}]", i));
                }
                want.push_str("|after");
                let obs = render_text(&pparser, &src_tmpl(&t), &d);
                ctx.emit(render_case("c05", &format!("expect:{}", crate::proto::hex(&want)), &t, &d, &ps, &obs));
                // inner of two loops: only the inner loop is affected
                let inner = Node::For { x: "i".into(), rng: RangeE::Counted(lit_i(1), lit_i(3)), limit: None, offset: None, rev: false,
                    body: vec![out(var("i")), Node::Include(lit_s("guard"), vec![]), text(".")], els: None };
                let t = vec![Node::For { x: "o".into(), rng: RangeE::Counted(lit_i(1), lit_i(2)), limit: None, offset: None, rev: false,
                    body: vec![text("<"), out(var("o")), text(":"), inner, text(">")], els: None }];
                let mut want = String::new();
                for o in 1..=2 {
                    want.push_str(&format!("<{}:", o));
                    for i in 1..=3i64 {
                        want.push_str(&i.to_string());
                        if i == skip {
                            continue;
                        }
                        if i == stop {
                            break;
                        }
                        want.push('.');
                    }
                    want.push('>');
                }
                let obs = render_text(&pparser, &src_tmpl(&t), &d);
                ctx.emit(render_case("c05", &format!("expect:{}", crate::proto::hex(&want)), &t, &d, &ps, &obs));
            }
        }
    }
    // short ranges at the very ends of the 64-bit range (judged by the same reference as the grid)
    for (lo, hi) in [(i64::MAX - 2, i64::MAX), (i64::MAX, i64::MAX), (i64::MAX - 1, i64::MAX), (i64::MIN, i64::MIN + 2), (i64::MIN, i64::MIN), (i64::MAX, i64::MAX - 1)] {
        for (off, lim, rev) in [(None, None, false), (Some(1i64), Some(2i64), true), (Some(0), Some(1), false), (None, Some(5), true)] {
            let t = vec![Node::For { x: "x".into(), rng: RangeE::Counted(lit_i(lo), lit_i(hi)), limit: lim.map(lit_i), offset: off.map(lit_i), rev, body: fields_body("forloop", FOR_FIELDS, "x"), els: Some(vec![text("EMPTY")]) }];
            case(ctx, &parser, &format!("for-range:{}:{}:{}:{}:{}", on(&off), on(&lim), rev as u8, lo, hi), t, &Object::new());
            for cols in [None, Some(2i64)] {
                let t = vec![Node::TableRow { x: "x".into(), rng: RangeE::Counted(lit_i(lo), lit_i(hi)), cols: cols.map(lit_i), limit: lim.map(lit_i), offset: off.map(lit_i), body: fields_body("tablerow", TR_FIELDS, "x") }];
                case(ctx, &parser, &format!("tablerow-range:{}:{}:{}:{}:{}", on(&off), on(&lim), on(&cols), lo, hi), t, &Object::new());
            }
        }
    }
    // a counted range is collected into a vector BEFORE limit/offset are applied: the full i64 range
    // overflows the vector's capacity computation (an open finding, see known_findings.json); only this
    // exact witness is run, because slightly shorter ranges try to allocate terabytes and abort
    {
        let t = vec![Node::For { x: "i".into(), rng: RangeE::Counted(lit_i(0), lit_i(i64::MAX)), limit: Some(lit_i(1)), offset: None, rev: false, body: vec![text("x")], els: None }];
        case(ctx, &parser, "range-huge", t, &Object::new());
    }
    let opts: Vec<Option<i64>> = std::iter::once(None).chain((0..=8).map(Some)).collect();
    // --- the grid ---
    for n in 0..=6usize {
        let data = arr_data(n);
        for off in &opts {
            for lim in &opts {
                for rev in [false, true] {
                    // array
                    let body = fields_body("forloop", FOR_FIELDS, "x");
                    let t = vec![Node::For {
                        x: "x".into(),
                        rng: RangeE::Arr(var("a")),
                        limit: opt_lit(*lim),
                        offset: opt_lit(*off),
                        rev,
                        body,
                        els: Some(vec![text("EMPTY")]),
                    }];
                    case(ctx, &parser, &format!("for-array:{}:{}:{}", on(off), on(lim), rev as u8), t, &data);
                }
                // range with literal and variable bounds (3 ..= 2+n has n elements)
                let body = fields_body("forloop", FOR_FIELDS, "x");
                let t = vec![Node::For {
                    x: "x".into(),
                    rng: RangeE::Counted(lit_i(3), var("hi")),
                    limit: opt_lit(*lim),
                    offset: opt_lit(*off),
                    rev: n % 2 == 1,
                    body,
                    els: Some(vec![text("EMPTY")]),
                }];
                case(ctx, &parser, &format!("for-range:{}:{}:{}:3:{}", on(off), on(lim), (n % 2 == 1) as u8, 2 + n as i64), t, &data);
                for cols in [None, Some(1), Some(2), Some(3), Some(4)] {
                    let body = fields_body("tablerow", TR_FIELDS, "x");
                    let t = vec![Node::TableRow {
                        x: "x".into(),
                        rng: RangeE::Arr(var("a")),
                        cols: opt_lit(cols),
                        limit: opt_lit(*lim),
                        offset: opt_lit(*off),
                        body,
                    }];
                    case(ctx, &parser, &format!("tablerow:{}:{}:{}", on(off), on(lim), on(&cols)), t, &data);
                }
                // (see below for ranges too long to materialise)
                // degenerate column counts: zero is an error (never a division by zero), a negative
                // count is an error or a table without row breaks, never a panic (judged by the model)
                for cols in [0i64, -1, i64::MIN] {
                    let t = vec![Node::TableRow { x: "x".into(), rng: RangeE::Arr(var("a")), cols: Some(lit_i(cols)), limit: opt_lit(*lim), offset: opt_lit(*off), body: vec![out(var("x"))] }];
                    case(ctx, &parser, "tablerow-degenerate-cols", t, &data);
                }
            }
        }
    }
    // --- degenerate collections: single-key object, nil, descending range, scalar (error) ---
    let data = arr_data(3);
    for (name, rng) in [
        ("obj", RangeE::Arr(var("o1"))),
        ("nil", RangeE::Arr(var("z"))),
        ("desc", RangeE::Counted(lit_i(5), lit_i(2))),
        ("same", RangeE::Counted(lit_i(4), lit_i(4))),
        ("neg", RangeE::Counted(lit_i(-2), lit_i(1))),
        ("scalar", RangeE::Arr(var("s"))),
        ("missing", RangeE::Arr(var("nope"))),
        ("varbounds", RangeE::Counted(var("lo"), var("hi"))),
        ("empty-lit", RangeE::Arr(Expr::Lit(Value::State(liquid_core::model::State::Empty)))),
        ("nil-lit", RangeE::Arr(Expr::Lit(Value::Nil))),
    ] {
        for off in [None, Some(0), Some(1), Some(5), Some(-1)] {
            for lim in [None, Some(0), Some(1), Some(2), Some(7), Some(-1)] {
                let body = fields_body("forloop", FOR_FIELDS, "x");
                let t = vec![Node::For {
                    x: "x".into(),
                    rng: rng.clone(),
                    limit: opt_lit(lim),
                    offset: opt_lit(off),
                    rev: false,
                    body,
                    els: Some(vec![text("EMPTY")]),
                }];
                case(ctx, &parser, &format!("for-{}", name), t, &data);
            }
        }
    }
    // --- break / continue at every iteration index and nesting level of two nested loops ---
    for n in 1..=4usize {
        for m in 1..=3usize {
            let mut data = arr_data(n);
            data.insert("b".into(), Value::Array((0..m).map(|i| Value::scalar(20 + i as i64)).collect()));
            for at_outer in 0..=n {
                for at_inner in 0..=m {
                    for (ko, ki) in [(0, 0), (0, 1), (1, 0), (1, 1), (2, 0), (0, 2), (2, 1), (1, 2), (2, 2)] {
                        let intr = |k: usize| match k {
                            1 => vec![Node::Break],
                            2 => vec![Node::Continue],
                            _ => vec![],
                        };
                        let guard = |obj: &str, at: usize, k: usize| Node::Cond {
                            c: Cond::Bin(path(obj, &["index0"]), CmpOp::Eq, lit_i(at as i64)),
                            mode: true,
                            thn: intr(k),
                            els: None,
                            elsif: false,
                        };
                        let inner = Node::For {
                            x: "y".into(),
                            rng: RangeE::Arr(var("b")),
                            limit: None,
                            offset: None,
                            rev: false,
                            body: vec![
                                text("("),
                                out(var("y")),
                                guard("forloop", at_inner, ki),
                                text(":"),
                                out(path("forloop", &["parentloop", "index"])),
                                text(")"),
                            ],
                            els: None,
                        };
                        let t = vec![Node::For {
                            x: "x".into(),
                            rng: RangeE::Arr(var("a")),
                            limit: None,
                            offset: None,
                            rev: false,
                            body: vec![text("<"), out(var("x")), inner, guard("forloop", at_outer, ko), text(">")],
                            els: None,
                        }];
                        case(ctx, &parser, &format!("nested:{}:{}:{}:{}", at_outer, at_inner, ko, ki), t, &data);
                    }
                }
            }
        }
    }
    // --- random larger instances ---
    let mut rng = Rng::new(ctx.seed);
    let count = if ctx.tier_thorough { 100_000 } else { 3_000 };
    for _ in 0..count {
        let n = rng.below(40);
        let data = arr_data(n);
        let o = |r: &mut Rng| if r.chance(1, 3) { None } else { Some(r.range(-2, 45)) };
        let (off, lim) = (o(&mut rng), o(&mut rng));
        if rng.chance(1, 3) {
            let cols = if rng.chance(1, 3) { None } else { Some(rng.range(1, 9)) };
            let t = vec![Node::TableRow {
                x: "x".into(),
                rng: RangeE::Arr(var("a")),
                cols: opt_lit(cols),
                limit: opt_lit(lim),
                offset: opt_lit(off),
                body: fields_body("tablerow", TR_FIELDS, "x"),
            }];
            let k = if off.unwrap_or(0) >= 0 && lim.unwrap_or(0) >= 0 { format!("tablerow:{}:{}:{}", on(&off), on(&lim), on(&cols)) } else { "rand-tablerow-neg".into() };
            case(ctx, &parser, &k, t, &data);
        } else {
            let use_arr = rng.chance(1, 2);
            let rev = rng.chance(1, 2);
            let t = vec![Node::For {
                x: "x".into(),
                rng: if use_arr { RangeE::Arr(var("a")) } else { RangeE::Counted(var("lo"), var("hi")) },
                limit: opt_lit(lim),
                offset: opt_lit(off),
                rev,
                body: fields_body("forloop", FOR_FIELDS, "x"),
                els: Some(vec![text("EMPTY")]),
            }];
            let k = if off.unwrap_or(0) < 0 || lim.unwrap_or(0) < 0 {
                "rand-for-neg".to_string()
            } else if use_arr {
                format!("for-array:{}:{}:{}", on(&off), on(&lim), rev as u8)
            } else {
                format!("for-range:{}:{}:{}:3:{}", on(&off), on(&lim), rev as u8, 2 + n as i64)
            };
            case(ctx, &parser, &k, t, &data);
        }
    }
}
