//! Value-level access to filters through the public plugin API: build a `Language` exactly as
//! `ParserBuilder::stdlib()` does (plus the jekyll/shopify/extra filters on request), look a
//! filter up by name, parse it with literal arguments, evaluate it on an input value.
use crate::proto::value_tokens;
use crate::run::panic_msg;
use liquid_core::model::{Value, ValueView};
use liquid_core::parser::{FilterArguments, Language};
use liquid_core::runtime::{Expression, RuntimeBuilder};
use liquid_lib::stdlib;
use std::panic::{catch_unwind, AssertUnwindSafe};

pub fn language(extra: bool) -> Language {
    let mut l = Language::empty();
    macro_rules! tag { ($($t:expr),*) => { $( { let t: Box<dyn liquid_core::ParseTag> = $t.into(); l.tags.register(t.reflection().tag().to_owned(), t); } )* } }
    macro_rules! block { ($($t:expr),*) => { $( { let t: Box<dyn liquid_core::ParseBlock> = $t.into(); l.blocks.register(t.reflection().start_tag().to_owned(), t); } )* } }
    macro_rules! filter { ($($t:expr),*) => { $( { let t: Box<dyn liquid_core::ParseFilter> = $t.into(); l.filters.register(t.reflection().name().to_owned(), t); } )* } }
    tag!(stdlib::AssignTag, stdlib::BreakTag, stdlib::ContinueTag, stdlib::CycleTag, stdlib::IncludeTag,
         stdlib::IncrementTag, stdlib::DecrementTag, stdlib::RenderTag);
    block!(stdlib::RawBlock, stdlib::IfBlock, stdlib::UnlessBlock, stdlib::IfChangedBlock, stdlib::ForBlock,
           stdlib::TableRowBlock, stdlib::CommentBlock, stdlib::CaptureBlock, stdlib::CaseBlock);
    filter!(stdlib::Abs, stdlib::Append, stdlib::AtLeast, stdlib::AtMost, stdlib::Capitalize, stdlib::Ceil,
            stdlib::Compact, stdlib::Concat, stdlib::Date, stdlib::Default, stdlib::DividedBy, stdlib::Downcase,
            stdlib::Escape, stdlib::EscapeOnce, stdlib::First, stdlib::Floor, stdlib::Join, stdlib::Last,
            stdlib::Lstrip, stdlib::Map, stdlib::Minus, stdlib::Modulo, stdlib::NewlineToBr, stdlib::Plus,
            stdlib::Prepend, stdlib::Remove, stdlib::RemoveFirst, stdlib::Replace, stdlib::ReplaceFirst,
            stdlib::Reverse, stdlib::Round, stdlib::Rstrip, stdlib::Size, stdlib::Slice, stdlib::Sort,
            stdlib::SortNatural, stdlib::Split, stdlib::Strip, stdlib::StripHtml, stdlib::StripNewlines,
            stdlib::Times, stdlib::Truncate, stdlib::TruncateWords, stdlib::Uniq, stdlib::Upcase,
            stdlib::UrlDecode, stdlib::UrlEncode, stdlib::Where);
    if extra {
        // same names as stdlib are overridden (jekyll `sort`), as a user registering them would
        filter!(liquid_lib::jekyll::Slugify, liquid_lib::jekyll::Push, liquid_lib::jekyll::Pop,
                liquid_lib::jekyll::Unshift, liquid_lib::jekyll::Shift, liquid_lib::jekyll::ArrayToSentenceString,
                liquid_lib::shopify::Pluralize, liquid_lib::extra::DateInTz);
    }
    l
}

/// Observation of one filter application.
#[derive(Clone, Debug, PartialEq)]
pub enum FObs {
    Ok(Value),
    /// the filter rejected its arguments when it was built (arity / keyword errors)
    ArgErr(String),
    Err(String),
    Panic(String),
}

impl FObs {
    pub fn tokens(&self) -> String {
        match self {
            FObs::Ok(v) => format!("ok {}", value_tokens(v)),
            FObs::ArgErr(m) => format!("argerr {}", if m.is_empty() { "nomsg" } else { "msg" }),
            FObs::Err(m) => format!("err {}", if m.is_empty() { "nomsg" } else { "msg" }),
            FObs::Panic(_) => "PANIC -".into(),
        }
    }
}

/// Apply filter `name` to `input` with literal positional arguments.
pub fn apply(lang: &Language, name: &str, input: &Value, args: &[Value]) -> FObs {
    apply_kw(lang, name, input, args, &[])
}

pub fn apply_kw(lang: &Language, name: &str, input: &Value, args: &[Value], kw: &[(&str, Value)]) -> FObs {
    let r = catch_unwind(AssertUnwindSafe(|| {
        let pf = match lang.filters.get(name) {
            Some(f) => f,
            None => return FObs::ArgErr(format!("unknown filter {}", name)),
        };
        let positional: Vec<Expression> = args.iter().map(|v| Expression::Literal(v.clone())).collect();
        let keyword: Vec<(&str, Expression)> = kw.iter().map(|(k, v)| (*k, Expression::Literal(v.clone()))).collect();
        let fa = FilterArguments { positional: Box::new(positional.into_iter()), keyword: Box::new(keyword.into_iter()) };
        let f = match pf.parse(fa) {
            Ok(f) => f,
            Err(e) => return FObs::ArgErr(e.to_string()),
        };
        let rt = RuntimeBuilder::new().build();
        match f.evaluate(input.as_view(), &rt) {
            Ok(v) => FObs::Ok(v),
            Err(e) => FObs::Err(e.to_string()),
        }
    }));
    match r {
        Ok(o) => o,
        Err(e) => FObs::Panic(panic_msg(e)),
    }
}

/// The generic filter case line: `<op> <kind> x<name> <input V> <nargs> <arg V>* => <obs>`
pub fn filter_case(op: &str, kind: &str, name: &str, input: &Value, args: &[Value], obs: &FObs) -> String {
    let mut s = format!("{} {} {} {} {}", op, kind, crate::proto::xs(name), value_tokens(input), args.len());
    for a in args {
        s.push(' ');
        s.push_str(&value_tokens(a));
    }
    s.push_str(" => ");
    s.push_str(&obs.tokens());
    s
}
