//! C03: literal text is preserved; trim markers, raw and comment do exactly their job.
//!
//! Generates templates as a *structure* (pieces), prints the structure both as Liquid source for the
//! real parser and as prefix tokens for the Lean driver (which computes the expected output from the
//! structure with the executable spec, and from the source text with the lexer model).
//! Streams, in this order: corpus (D10 witness), exhaustive whitespace grid around one output tag
//! (runs over {space, tab, CR, LF} × 2² trim markers), exhaustive four-sided grid around if / raw /
//! comment blocks (2⁴ trim markers × whitespace choices at the four positions), inner spaces 0..3 ×
//! 0..3 for every tag kind, random structured templates (any Unicode text, stray `{ } %` and quotes,
//! whitespace runs 0..4, nested if/raw/comment, look-alikes and unterminated markup in raw bodies,
//! invalid output tags and side-effecting markup in comment bodies), and token soups (model vs
//! implementation only).
use crate::proto::xs;
use crate::rng::Rng;
use crate::run::*;
use crate::Ctx;
use liquid_core::model::{Object, Value};

#[derive(Clone, Copy, Debug)]
pub struct Delim {
    pub tl: bool,
    pub tr: bool,
    pub il: u8,
    pub ir: u8,
}

impl Delim {
    fn tok(&self) -> String {
        format!("{}{}{}{}", self.tl as u8, self.tr as u8, self.il, self.ir)
    }
    fn plain() -> Delim {
        Delim { tl: false, tr: false, il: 1, ir: 1 }
    }
    fn trims(tl: bool, tr: bool) -> Delim {
        Delim { tl, tr, il: 1, ir: 1 }
    }
}

#[derive(Clone, Debug)]
pub enum Piece {
    Lit(String),
    Out(Delim, String, String),
    OutVar(Delim, String),
    Assign(Delim, String, String, String),
    Incr(Delim, String),
    If { o: Delim, cs: String, cond: bool, body: Vec<Piece>, has_else: bool, e: Delim, eb: Vec<Piece>, c: Delim },
    Raw(Delim, Vec<Piece>, Delim),
    Comment(Delim, Vec<Piece>, Delim),
    Look(String),
    Opener(String),
    Bad(String),
}

fn sp(n: u8) -> String {
    " ".repeat(n as usize)
}
fn out_src(d: &Delim, inner: &str) -> String {
    format!("{}{}{}{}{}", if d.tl { "{{-" } else { "{{" }, sp(d.il), inner, sp(d.ir), if d.tr { "-}}" } else { "}}" })
}
fn tag_src(d: &Delim, inner: &str) -> String {
    format!("{}{}{}{}{}", if d.tl { "{%-" } else { "{%" }, sp(d.il), inner, sp(d.ir), if d.tr { "-%}" } else { "%}" })
}

pub fn src_l(ps: &[Piece]) -> String {
    ps.iter().map(|p| p.src()).collect()
}

impl Piece {
    pub fn src(&self) -> String {
        match self {
            Piece::Lit(s) | Piece::Look(s) | Piece::Opener(s) | Piece::Bad(s) => s.clone(),
            Piece::Out(d, s, _) => out_src(d, s),
            Piece::OutVar(d, n) => out_src(d, n),
            Piece::Assign(d, n, s, _) => tag_src(d, &format!("assign {} = {}", n, s)),
            Piece::Incr(d, n) => tag_src(d, &format!("increment {}", n)),
            Piece::If { o, cs, body, has_else, e, eb, c, .. } => {
                let mut s = tag_src(o, &format!("if {}", cs));
                s.push_str(&src_l(body));
                if *has_else {
                    s.push_str(&tag_src(e, "else"));
                    s.push_str(&src_l(eb));
                }
                s.push_str(&tag_src(c, "endif"));
                s
            }
            Piece::Raw(o, b, c) => format!("{}{}{}", tag_src(o, "raw"), src_l(b), tag_src(c, "endraw")),
            Piece::Comment(o, b, c) => format!("{}{}{}", tag_src(o, "comment"), src_l(b), tag_src(c, "endcomment")),
        }
    }
    pub fn enc(&self, out: &mut Vec<String>) {
        match self {
            Piece::Lit(s) => {
                out.push("L".into());
                out.push(xs(s));
            }
            Piece::Look(s) => {
                out.push("K".into());
                out.push(xs(s));
            }
            Piece::Opener(s) => {
                out.push("U".into());
                out.push(xs(s));
            }
            Piece::Bad(s) => {
                out.push("B".into());
                out.push(xs(s));
            }
            Piece::Out(d, s, v) => {
                out.push("O".into());
                out.push(d.tok());
                out.push(xs(s));
                out.push(xs(v));
            }
            Piece::OutVar(d, n) => {
                out.push("V".into());
                out.push(d.tok());
                out.push(xs(n));
            }
            Piece::Assign(d, n, s, v) => {
                out.push("A".into());
                out.push(d.tok());
                out.push(xs(n));
                out.push(xs(s));
                out.push(xs(v));
            }
            Piece::Incr(d, n) => {
                out.push("N".into());
                out.push(d.tok());
                out.push(xs(n));
            }
            Piece::If { o, cs, cond, body, has_else, e, eb, c } => {
                out.push("I".into());
                out.push(o.tok());
                out.push(xs(cs));
                out.push((*cond as u8).to_string());
                enc_l(body, out);
                out.push((*has_else as u8).to_string());
                out.push(e.tok());
                enc_l(eb, out);
                out.push(c.tok());
            }
            Piece::Raw(o, b, c) => {
                out.push("R".into());
                out.push(o.tok());
                enc_l(b, out);
                out.push(c.tok());
            }
            Piece::Comment(o, b, c) => {
                out.push("C".into());
                out.push(o.tok());
                enc_l(b, out);
                out.push(c.tok());
            }
        }
    }
}

pub fn enc_l(ps: &[Piece], out: &mut Vec<String>) {
    out.push(ps.len().to_string());
    for p in ps {
        p.enc(out);
    }
}

/// caller data of every C03 case (mirrored by `Drv/C03.lean` and the spec's initial environment)
fn data() -> Object {
    let mut o = Object::new();
    o.insert("a".into(), Value::scalar("A0"));
    o.insert("b".into(), Value::scalar("B0"));
    o.insert("c".into(), Value::scalar("C0"));
    o.insert("g".into(), Value::scalar("G"));
    o
}

fn case(ctx: &mut Ctx, parser: &liquid::Parser, data: &Object, kind: &str, ps: &[Piece]) {
    let text = src_l(ps);
    let mut obs = render_text(parser, &text, data);
    // the other way a source reaches the parser: from a file, byte for byte
    if let Some(via_file) = render_text_via_file(parser, &text, data) {
        if via_file.tokens() != obs.tokens() {
            eprintln!("note: Parser::parse_file and Parser::parse disagree on {:?}: parse={} parse_file={}", text, obs.tokens(), via_file.tokens());
            obs = Obs::Panic("Parser::parse_file and Parser::parse disagree".into());
        }
    }
    let mut toks = Vec::new();
    enc_l(ps, &mut toks);
    ctx.emit(format!("c03 {} {} {} #{}", kind, toks.join(" "), obs.tokens(), xs(&text)));
}

fn lit(s: &str) -> Piece {
    Piece::Lit(s.to_string())
}

const WS: [char; 4] = [' ', '\t', '\r', '\n'];

/// all strings over the four whitespace characters of length 0..=n
fn ws_strings(n: usize) -> Vec<String> {
    let mut all = vec![String::new()];
    let mut last = vec![String::new()];
    for _ in 0..n {
        let mut next = Vec::new();
        for s in &last {
            for c in WS {
                let mut t = s.clone();
                t.push(c);
                next.push(t);
            }
        }
        all.extend(next.iter().cloned());
        last = next;
    }
    all
}

fn ws_run(r: &mut Rng, max: usize) -> String {
    let n = r.below(max + 1);
    (0..n).map(|_| *r.pick(&WS)).collect()
}

// ---- text ----

const POOL: &[&str] = &[
    "a", "b", "z", "Q", "0", "7", "_", ".", ",", ";", ":", "!", "?", "#", "$", "&", "*", "+", "=", "/", "\\", "<", ">", "|", "[", "]", "(",
    ")", "~", "^", "@", "`", "-", "-", "{", "{", "}", "}", "%", "%", "'", "\"", " ", " ", "\t", "\n", "\r", "é", "ß", "Ω", "漢", "字", "😀", "\u{301}",
    "\u{a0}", "\u{2028}", "\u{b}", "\u{c}", "\u{85}", "\u{feff}", "\u{10ffff}", "\u{0}",
];

/// arbitrary text without `{{` / `{%` (a `{` is never followed by `{` or `%`)
fn text(r: &mut Rng, max: usize, quotes: bool) -> String {
    let n = r.below(max + 1);
    let mut s = String::new();
    for _ in 0..n {
        let mut t = *r.pick(POOL);
        if r.chance(1, 40) {
            // any scalar value
            let cp = (r.next() % 0x11_0000) as u32;
            if let Some(c) = char::from_u32(cp) {
                if c != '{' && c != '%' && (quotes || (c != '\'' && c != '"')) {
                    s.push(c);
                    continue;
                }
            }
        }
        if !quotes && (t == "'" || t == "\"") {
            t = "q";
        }
        if s.ends_with('{') && (t == "{" || t == "%") {
            t = "}";
        }
        s.push_str(t);
    }
    s
}

/// append a piece, keeping literal stretches free of `{{`/`{%` and not ending in `{` before markup
fn push(ps: &mut Vec<Piece>, p: Piece) {
    if let Piece::Lit(s) = &p {
        if s.is_empty() {
            return;
        }
    }
    let prev_brace = match ps.last() {
        Some(Piece::Lit(s)) => s.ends_with('{'),
        _ => false,
    };
    if prev_brace {
        let starts = p.src().chars().next();
        if starts == Some('{') || starts == Some('%') {
            ps.push(lit("_"));
        }
    }
    ps.push(p);
}

fn delim(r: &mut Rng) -> Delim {
    Delim { tl: r.chance(1, 2), tr: r.chance(1, 2), il: r.below(4) as u8, ir: r.below(4) as u8 }
}

const VARS: [&str; 4] = ["a", "b", "c", "g"];
const COUNTERS: [&str; 2] = ["m", "n"];
const CONDS: &[(&str, bool)] = &[
    ("true", true),
    ("false", false),
    ("1 == 1", true),
    ("1 > 2", false),
    ("nil", false),
    ("'x' == 'x'", true),
    ("g == 'G'", true),
    ("g contains 'Z'", false),
    ("1 < 2 and 2 < 3", true),
    ("false or true", true),
    ("g", true),
    ("2 <= 1 or 1 != 1", false),
    ("\"%}\" == \"%}\"", true),
];
const LOOKS: &[&str] = &[
    "{{ a }}", "{{- a -}}", "{{a}}", "{% if x %}", "{%- endif -%}", "{% assign a = 1 %}", "{{ 'q' }}", "{% comment %}", "{% raw %}",
    "{{ x | upcase }}", "{%endfoo%}", "{{ \"}}\" }}", "{% else %}", "{{ a -}}", "{%- x -%}", "{{ 1.5 }}", "{% for i in (1..3) %}",
];
const LOOKS_NOQUOTE: &[&str] =
    &["{{ a }}", "{{- a -}}", "{{a}}", "{% if x %}", "{%- endif -%}", "{% assign a = 1 %}", "{% comment %}", "{{ x | upcase }}", "{{ a -}}", "{%- x -%}"];
const OPENERS: &[&str] = &["{{", "{%", "{{ a", "{% if", "{{-", "{%- x ==", "{{ a | f:", "{% for x in (1..", "{{ a.", "{{ a[", "{%-"];
const BADS: &[&str] = &["{{ ! }}", "{{ }}", "{{ a b }}", "{{ | x }}", "{{ 1 + }}", "{{a.}}", "{{- ? -}}", "{% foo bar %}", "{% 1 %}", "{%%}", "{{ a[ }}"];

fn literal(r: &mut Rng, d: &Delim) -> (String, String) {
    match r.below(9) {
        0 => ("0".into(), "0".into()),
        1 => {
            let i = r.range(0, 99999);
            (i.to_string(), i.to_string())
        }
        2 => ("+7".into(), "7".into()),
        3 => {
            if d.il > 0 || d.tl {
                ("-5".into(), "-5".into())
            } else {
                ("5".into(), "5".into())
            }
        }
        4 => ("true".into(), "true".into()),
        5 => ("nil".into(), "".into()),
        6 | 7 => {
            let q = if r.chance(1, 2) { '\'' } else { '"' };
            let mut body: String = text(r, 6, true).chars().filter(|c| *c != q).collect();
            if r.chance(1, 4) {
                body.push_str(*r.pick(&["{{", "}}", "{%", "%}", "{% endraw %}", "-}} ", " {{-", "{% endcomment %}"]));
            }
            (format!("{}{}{}", q, body, q), body)
        }
        _ => ("1.5".into(), "1.5".into()),
    }
}

fn simple(r: &mut Rng) -> Piece {
    let d = delim(r);
    match r.below(10) {
        0..=4 => {
            let (s, v) = literal(r, &d);
            Piece::Out(d, s, v)
        }
        5 | 6 => Piece::OutVar(d, r.pick(&VARS).to_string()),
        7 | 8 => {
            let (s, v) = literal(r, &d);
            Piece::Assign(d, r.pick(&VARS[..3]).to_string(), s, v)
        }
        _ => Piece::Incr(d, r.pick(&COUNTERS).to_string()),
    }
}

fn raw_body(r: &mut Rng) -> Vec<Piece> {
    let mut ps = Vec::new();
    let n = r.below(6);
    let mut opened = false;
    for _ in 0..n {
        match r.below(6) {
            0 | 1 => push(&mut ps, Piece::Lit(text(r, 5, !opened))),
            2 => push(&mut ps, Piece::Lit(ws_run(r, 4))),
            3 | 4 => {
                let l = if opened { *r.pick(LOOKS_NOQUOTE) } else { *r.pick(LOOKS) };
                push(&mut ps, Piece::Look(l.to_string()))
            }
            _ => {
                opened = true;
                push(&mut ps, Piece::Opener(r.pick(OPENERS).to_string()))
            }
        }
    }
    // an `endraw` tag that carries arguments does not close the block: it is body text, also when it
    // is the last thing before the real end tag
    if r.chance(1, 6) {
        push(&mut ps, Piece::Look(r.pick(&["{% endraw x %}", "{%- endraw 'z' -%}", "{% endraw 1 %}", "{%endraw a b%}"]).to_string()));
    }
    // the end tag follows: a literal must not end in `{`
    if let Some(Piece::Lit(s)) = ps.last() {
        if s.ends_with('{') {
            ps.push(lit("_"));
        }
    }
    ps
}

fn comment_body(r: &mut Rng, depth: usize) -> Vec<Piece> {
    let mut ps = Vec::new();
    let n = r.below(6);
    for _ in 0..n {
        match r.below(8) {
            0 | 1 => push(&mut ps, Piece::Lit(text(r, 5, true))),
            2 => push(&mut ps, Piece::Lit(ws_run(r, 4))),
            3 => push(&mut ps, Piece::Bad(r.pick(BADS).to_string())),
            4 | 5 => push(&mut ps, simple(r)),
            _ => {
                if depth > 0 {
                    let p = block(r, depth - 1);
                    push(&mut ps, p)
                } else {
                    push(&mut ps, simple(r))
                }
            }
        }
    }
    if let Some(Piece::Lit(s)) = ps.last() {
        if s.ends_with('{') {
            ps.push(lit("_"));
        }
    }
    ps
}

fn block(r: &mut Rng, depth: usize) -> Piece {
    match r.below(4) {
        0 | 1 => {
            let (cs, cond) = *r.pick(CONDS);
            let has_else = r.chance(1, 3);
            Piece::If {
                o: delim(r),
                cs: cs.to_string(),
                cond,
                body: pieces(r, depth, 4),
                has_else,
                e: if has_else { delim(r) } else { Delim::plain() },
                eb: if has_else { pieces(r, depth, 3) } else { vec![] },
                c: delim(r),
            }
        }
        2 => Piece::Raw(delim(r), raw_body(r), delim(r)),
        _ => Piece::Comment(delim(r), comment_body(r, depth), delim(r)),
    }
}

/// a well-formed template: text, whitespace runs and markup interleaved
fn pieces(r: &mut Rng, depth: usize, max: usize) -> Vec<Piece> {
    let mut ps = Vec::new();
    let n = r.below(max + 1);
    for _ in 0..n {
        match r.below(10) {
            0 | 1 | 2 => push(&mut ps, Piece::Lit(text(r, 6, true))),
            3 | 4 => push(&mut ps, Piece::Lit(ws_run(r, 4))),
            5 | 6 | 7 => push(&mut ps, simple(r)),
            _ => {
                if depth > 0 {
                    let p = block(r, depth - 1);
                    push(&mut ps, p)
                } else {
                    push(&mut ps, simple(r))
                }
            }
        }
    }
    if let Some(Piece::Lit(s)) = ps.last() {
        if s.ends_with('{') {
            ps.push(lit("_"));
        }
    }
    ps
}

const SOUP: &[&str] = &[
    "{{", "}}", "{%", "%}", "{{-", "-}}", "{%-", "-%}", " ", " ", "\t", "\n", "\r", "a", "g", "1", "'s'", "\"", "'", "raw", "endraw", "comment",
    "endcomment", "if", "endif", "else", "true", "false", "assign", "=", "==", "x", "{", "}", "%", "-", "|", "é", "increment", "m",
];

pub fn run(ctx: &mut Ctx) {
    let parser = build_parser(&[], Policy::Eager);
    let data = data();
    let thorough = ctx.tier_thorough;

    // ---- corpus: the D10 witness and friends ----
    for (l, r) in [("\t", "\t"), (" \t", "\t "), ("\t\n", "\r\t"), ("\r", "\r"), ("\r\n", "\r\n")] {
        let ps = vec![lit("a"), lit(l), Piece::Out(Delim::trims(true, true), "1".into(), "1".into()), lit(r), lit("b")];
        case(ctx, &parser, &data, "corpus-ws", &ps);
    }

    // ---- E1: whitespace runs around one output tag, every trim combination ----
    let runs = ws_strings(if thorough { 3 } else { 2 });
    for l in &runs {
        for r in &runs {
            for (tl, tr) in [(false, false), (true, false), (false, true), (true, true)] {
                let ps = vec![lit("a"), lit(l), Piece::Out(Delim::trims(tl, tr), "1".into(), "1".into()), lit(r), lit("b")];
                case(ctx, &parser, &data, "ws-grid", &ps);
            }
        }
    }
    // every single whitespace character at the very start / end of the template and next to a tag pair
    for w in ws_strings(2) {
        for (tl, tr) in [(false, false), (true, false), (false, true), (true, true)] {
            let d = Delim::trims(tl, tr);
            let ps = vec![lit(&w), Piece::Out(d, "1".into(), "1".into()), lit(&w), Piece::Assign(d, "a".into(), "2".into(), "2".into()), lit(&w), Piece::OutVar(d, "a".into()), lit(&w)];
            case(ctx, &parser, &data, "ws-edges", &ps);
        }
    }

    // ---- E2: four delimiter sides of a block, whitespace at the four positions ----
    let ws4: Vec<&str> = if thorough { vec!["", " ", "\t", "\n", "\r\n", " \t"] } else { vec!["", " ", "\t\n"] };
    for kind in 0..5 {
        for bits in 0..16u32 {
            let o = Delim::trims(bits & 1 != 0, bits & 2 != 0);
            let c = Delim::trims(bits & 4 != 0, bits & 8 != 0);
            for w1 in &ws4 {
                for w2 in &ws4 {
                    for w3 in &ws4 {
                        for w4 in &ws4 {
                            let body = vec![lit(w2), lit("y"), lit(w3)];
                            let (name, blk) = match kind {
                                0 => ("if-true", Piece::If { o, cs: "true".into(), cond: true, body, has_else: false, e: Delim::plain(), eb: vec![], c }),
                                1 => ("if-false", Piece::If { o, cs: "false".into(), cond: false, body, has_else: false, e: Delim::plain(), eb: vec![], c }),
                                2 => ("raw", Piece::Raw(o, body, c)),
                                3 => ("comment", Piece::Comment(o, body, c)),
                                _ => (
                                    "if-else",
                                    Piece::If {
                                        o,
                                        cs: "false".into(),
                                        cond: false,
                                        body: vec![lit("n")],
                                        has_else: true,
                                        e: Delim::trims(bits & 4 != 0, bits & 2 != 0),
                                        eb: body,
                                        c,
                                    },
                                ),
                            };
                            let ps = vec![lit("x"), lit(w1), blk, lit(w4), lit("z")];
                            case(ctx, &parser, &data, &format!("block-grid-{}", name), &ps);
                        }
                    }
                }
            }
        }
    }

    // ---- E3: 0..3 spaces inside the delimiters, every tag kind, every trim combination ----
    for il in 0..4u8 {
        for ir in 0..4u8 {
            for (tl, tr) in [(false, false), (true, false), (false, true), (true, true)] {
                let d = Delim { tl, tr, il, ir };
                let tags: Vec<Piece> = vec![
                    Piece::Out(d, "42".into(), "42".into()),
                    Piece::Out(d, "'s t'".into(), "s t".into()),
                    Piece::OutVar(d, "g".into()),
                    Piece::Assign(d, "a".into(), "'v'".into(), "v".into()),
                    Piece::Incr(d, "m".into()),
                    Piece::If { o: d, cs: "true".into(), cond: true, body: vec![lit(" y ")], has_else: true, e: d, eb: vec![lit(" n ")], c: d },
                    Piece::Raw(d, vec![lit(" {{ r }} ")], d),
                    Piece::Raw(d, vec![lit(" "), Piece::Look("{{ r }}".into()), lit(" ")], d),
                    Piece::Comment(d, vec![lit(" c ")], d),
                ];
                for t in tags {
                    let ps = vec![lit("p \n"), t, lit("\t q"), Piece::OutVar(Delim::plain(), "a".into())];
                    case(ctx, &parser, &data, "inner-spaces", &ps);
                }
            }
        }
    }

    // ---- random structured templates ----
    let mut rng = Rng::new(ctx.seed);
    // long text-only templates (beyond every initial buffer size of the buffered entry point), each
    // followed by short ones: all render to themselves.  The long ones are judged here (the statement
    // itself is the reference: output == input); the short ones go to the driver as usual.
    for (k, size) in [20_000usize, 700_000, 1_300_000, 9_999, 10_001].into_iter().enumerate() {
        let unit = ["lorem { ipsum } % 'q' \"d\" é日😀\r\n\t", "x", "}} %} -"][k % 3];
        let mut big = String::with_capacity(size + unit.len());
        while big.len() < size {
            big.push_str(unit);
        }
        let obs = render_text(&parser, &big, &data);
        let ok = matches!(&obs, Obs::Ok(o) if *o == big);
        let detail = match &obs {
            Obs::Ok(o) => format!("text-only template of {} bytes rendered to {} bytes, first difference at byte {}", big.len(), o.len(), o.bytes().zip(big.bytes()).position(|(a, b)| a != b).unwrap_or(o.len().min(big.len()))),
            other => format!("text-only template of {} bytes: {}", big.len(), other.tokens().chars().take(40).collect::<String>()),
        };
        ctx.emit(format!("law text-only renders-to-itself {} {}", if ok { "ok" } else { "fail" }, xs(&detail)));
        for _ in 0..20 {
            let ps = vec![Piece::Lit(text(&mut rng, 24, true))];
            case(ctx, &parser, &data, "plain-after-long", &ps);
        }
    }
    let n_plain = if thorough { 30_000 } else { 1_000 };
    for _ in 0..n_plain {
        // no markup at all: renders to itself
        let ps = vec![Piece::Lit(text(&mut rng, 24, true))];
        case(ctx, &parser, &data, "plain", &ps);
    }
    let n_rand = if thorough { 620_000 } else { 9_000 };
    for i in 0..n_rand {
        let ps = pieces(&mut rng, 2, 7);
        let _ = i;
        case(ctx, &parser, &data, "random", &ps);
    }
    let n_rc = if thorough { 120_000 } else { 3_000 };
    for i in 0..n_rc {
        // a raw or comment block with neighbours, and a probe of the state after it
        let blk = if i % 2 == 0 { Piece::Raw(delim(&mut rng), raw_body(&mut rng), delim(&mut rng)) } else { Piece::Comment(delim(&mut rng), comment_body(&mut rng, 2), delim(&mut rng)) };
        let mut ps = Vec::new();
        push(&mut ps, Piece::Lit(text(&mut rng, 4, true)));
        push(&mut ps, Piece::Lit(ws_run(&mut rng, 4)));
        push(&mut ps, blk);
        push(&mut ps, Piece::Lit(ws_run(&mut rng, 4)));
        push(&mut ps, Piece::Lit(text(&mut rng, 4, true)));
        for v in ["a", "b", "c"] {
            push(&mut ps, Piece::OutVar(Delim::plain(), v.into()));
        }
        push(&mut ps, Piece::Incr(Delim::plain(), "m".into()));
        push(&mut ps, Piece::Incr(Delim::plain(), "n".into()));
        case(ctx, &parser, &data, if i % 2 == 0 { "raw-block" } else { "comment-block" }, &ps);
    }

    // ---- token soups: outside the generator contract, model vs implementation only ----
    let n_soup = if thorough { 100_000 } else { 3_000 };
    for _ in 0..n_soup {
        let n = 1 + rng.below(10);
        let mut s = String::new();
        for _ in 0..n {
            s.push_str(*rng.pick(SOUP));
        }
        let ps = vec![Piece::Look(s)];
        case(ctx, &parser, &data, "soup", &ps);
    }
}
