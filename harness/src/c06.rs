//! C06: conditionals render exactly one branch, chosen by Liquid truth and comparison.
use crate::ast::*;
use crate::rng::Rng;
use crate::run::*;
use crate::Ctx;
use liquid_core::model::{Object, State, Value, ValueView, ValueViewCmp};

/// the ~30-value pool; `lit` = has a literal syntax
pub fn pool() -> Vec<(&'static str, Value, bool)> {
    let obj = |kvs: &[(&str, Value)]| {
        let mut o = Object::new();
        for (k, v) in kvs {
            o.insert(k.to_string().into(), v.clone());
        }
        Value::Object(o)
    };
    vec![
        ("nil", Value::Nil, true),
        ("true", Value::scalar(true), true),
        ("false", Value::scalar(false), true),
        ("i0", Value::scalar(0i64), true),
        ("i1", Value::scalar(1i64), true),
        ("im1", Value::scalar(-1i64), true),
        ("i2", Value::scalar(2i64), true),
        ("i10", Value::scalar(10i64), true),
        ("f0", Value::scalar(0.0f64), true),
        ("f1", Value::scalar(1.0f64), true),
        ("f2", Value::scalar(2.0f64), true),
        ("f15", Value::scalar(1.5f64), true),
        ("fneg0", Value::scalar(-0.0f64), true),
        ("nan", Value::scalar(f64::NAN), false),
        ("s1", Value::scalar("1"), true),
        ("s10", Value::scalar("10"), true),
        ("s2", Value::scalar("2"), true),
        ("sa", Value::scalar("a"), true),
        ("sab", Value::scalar("ab"), true),
        ("sA", Value::scalar("A"), true),
        ("strue", Value::scalar("true"), true),
        ("sempty", Value::scalar(""), true),
        ("sblank", Value::scalar("  "), true),
        ("se", Value::scalar("é"), true),
        ("empty", Value::State(State::Empty), true),
        ("blank", Value::State(State::Blank), true),
        ("arr0", Value::Array(vec![]), false),
        ("arr1", Value::Array(vec![Value::scalar(1i64)]), false),
        ("arr12", Value::Array(vec![Value::scalar(1i64), Value::scalar(2i64)]), false),
        ("arra", Value::Array(vec![Value::scalar("a"), Value::Nil]), false),
        ("obj0", obj(&[]), false),
        ("obja", obj(&[("a", Value::scalar(1i64))]), false),
        ("objb", obj(&[("b", Value::scalar(2i64))]), false),
    ]
}

const OPS: [CmpOp; 7] = [CmpOp::Eq, CmpOp::Ne, CmpOp::Lt, CmpOp::Gt, CmpOp::Le, CmpOp::Ge, CmpOp::Contains];

fn case(ctx: &mut Ctx, parser: &liquid::Parser, kind: &str, t: Vec<Node>, data: &Object) {
    let obs = render_text(parser, &src_tmpl(&t), data);
    ctx.emit(render_case("c06", kind, &t, data, &[], &obs));
}

/// What the value model's own equality / ordering (the Rust API the property names) says about
/// `a op b`; `None` for `contains`, which has no API counterpart.
fn api_truth(op: CmpOp, a: &Value, b: &Value) -> Option<bool> {
    let (x, y) = (ValueViewCmp::new(a), ValueViewCmp::new(b));
    Some(match op {
        CmpOp::Eq => x == y,
        CmpOp::Ne => x != y,
        CmpOp::Lt => x < y,
        CmpOp::Gt => x > y,
        CmpOp::Le => x <= y,
        CmpOp::Ge => x >= y,
        CmpOp::Contains => return None,
    })
}

/// an operator case: the branch the template takes must be the one the value API dictates
fn op_case(ctx: &mut Ctx, parser: &liquid::Parser, kind: &str, t: Vec<Node>, data: &Object, op: CmpOp, a: &Value, b: &Value) {
    let obs = render_text(parser, &src_tmpl(&t), data);
    let mut k = kind.to_string();
    if let (Some(want), Obs::Ok(s)) = (api_truth(op, a, b), &obs) {
        if s != if want { "T" } else { "F" } {
            k = format!("OPAPI:{}", kind);
        }
    }
    // where the value model orders the two values, its equality and its ordering must tell the same
    // story (== exactly when the ordering says Equal): the branch taken for `==` / `!=` is judged by
    // the ordering as well
    if let (Some(o), Obs::Ok(s)) = (ValueViewCmp::new(a).partial_cmp(&ValueViewCmp::new(b)), &obs) {
        let want = match op {
            CmpOp::Eq => Some(o == std::cmp::Ordering::Equal),
            CmpOp::Ne => Some(o != std::cmp::Ordering::Equal),
            _ => None,
        };
        if let Some(w) = want {
            if s != if w { "T" } else { "F" } {
                k = format!("OPAPI:{}", kind);
            }
        }
    }
    ctx.emit(render_case("c06", &k, &t, data, &[], &obs));
}

fn ite(c: Cond, mode: bool) -> Vec<Node> {
    vec![Node::Cond { c, mode, thn: vec![text("T")], els: Some(vec![text("F")]), elsif: false }]
}

pub fn run(ctx: &mut Ctx) {
    let parser = build_parser(&[], Policy::Eager);
    let pool = pool();
    let mut data = Object::new();
    for (n, v, _) in &pool {
        data.insert((*n).into(), v.clone());
    }
    // 1. every operator × every ordered pair, through variables and (where possible) as literals
    for op in OPS {
        for (na, va, la) in &pool {
            for (nb, vb, lb) in &pool {
                op_case(ctx, &parser, "op-var", ite(Cond::Bin(var(na), op, var(nb)), true), &data, op, va, vb);
                if *la && *lb {
                    op_case(ctx, &parser, "op-lit", ite(Cond::Bin(Expr::Lit(va.clone()), op, Expr::Lit(vb.clone())), true), &data, op, va, vb);
                } else if *la {
                    op_case(ctx, &parser, "op-mixed", ite(Cond::Bin(Expr::Lit(va.clone()), op, var(nb)), true), &data, op, va, vb);
                }
            }
        }
    }
    // 2. truthiness of a bare value (if and unless), defined, undefined and nested-undefined names
    for (n, v, l) in &pool {
        for mode in [true, false] {
            case(ctx, &parser, "truthy-var", ite(Cond::Exist(var(n)), mode), &data);
            if *l {
                case(ctx, &parser, "truthy-lit", ite(Cond::Exist(Expr::Lit(v.clone())), mode), &data);
            }
        }
    }
    for e in [var("undefined"), path("obja", &["zz"]), path("undefined", &["x"]), path("arr1", &["first"]), path("sa", &["size"])] {
        for mode in [true, false] {
            case(ctx, &parser, "truthy-path", ite(Cond::Exist(e.clone()), mode), &data);
        }
    }
    // 2b. the same bare test when an inner scope (loop variable, include / render argument) re-binds the
    // root of the path with a value that lacks the member: the member of the OUTER value must not count
    {
        let mut d = Object::new();
        let mut outer = Object::new();
        outer.insert("featured".into(), Value::scalar(true));
        outer.insert("tags".into(), Value::Array(vec![Value::scalar("t0")]));
        d.insert("item".into(), Value::Object(outer));
        let mk = |kvs: &[(&str, Value)]| {
            let mut o = Object::new();
            for (k, v) in kvs {
                o.insert(k.to_string().into(), v.clone());
            }
            Value::Object(o)
        };
        d.insert("products".into(), Value::Array(vec![mk(&[("name", Value::scalar("a"))]), mk(&[("name", Value::scalar("b")), ("featured", Value::scalar(false))]), mk(&[("name", Value::scalar("c")), ("featured", Value::scalar(true))]), Value::scalar(7i64), Value::Nil]));
        for probe in [path("item", &["featured"]), path("item", &["tags", "first"]), Expr::Var("item".into(), vec![lit_s("featured")]), path("item", &["tags"])] {
            for mode in [true, false] {
                let body = vec![Node::Cond { c: Cond::Exist(probe.clone()), mode, thn: vec![text("T")], els: Some(vec![text("F")]), elsif: false }];
                let t = vec![Node::For { x: "item".into(), rng: RangeE::Arr(var("products")), limit: None, offset: None, rev: false, body, els: None }];
                // reference: truthiness of the member of the LOOP element only
                let want: String = ["a", "b", "c", "7", "nil"].iter().map(|n| {
                    let truthy = match (*n, &probe) {
                        ("c", Expr::Var(_, ix)) if ix.len() == 1 && !matches!(&ix[0], Expr::Lit(v) if v.to_kstr() == "tags") => true,
                        _ => false,
                    };
                    if truthy == mode { 'T' } else { 'F' }
                }).collect();
                let obs = render_text(&parser, &src_tmpl(&t), &d);
                let k = match &obs { Obs::Ok(s) if *s == want => "shadow-path".to_string(), _ => format!("SHADOWPATH:want={}", crate::proto::hex(&want)) };
                ctx.emit(render_case("c06", &k, &t, &d, &[], &obs));
            }
        }
    }
    // 3. if/elsif chains of 1..4 arms under all truth assignments, with and without else; unless/else
    for arms in 1..=4usize {
        for assign in 0..(1u32 << arms) {
            let mut d = Object::new();
            for i in 0..arms {
                d.insert(format!("c{}", i).into(), Value::scalar(assign & (1 << i) != 0));
            }
            for with_else in [false, true] {
                // build nested chain from the last arm backwards
                let mut els: Option<Vec<Node>> = if with_else { Some(vec![text("E")]) } else { None };
                let mut is_elsif = false;
                for i in (0..arms).rev() {
                    let n = Node::Cond {
                        c: Cond::Exist(var(&format!("c{}", i))),
                        mode: true,
                        thn: vec![text(&format!("<{}>", i))],
                        els: els.take(),
                        elsif: is_elsif,
                    };
                    els = Some(vec![n]);
                    is_elsif = true;
                }
                // the outermost is the `if` itself
                let mut t = els.unwrap();
                t.insert(0, text("["));
                t.push(text("]"));
                case(ctx, &parser, &format!("chain:{}:{}", arms, with_else as u8), t, &d);
            }
        }
    }
    for b in [true, false] {
        let mut d = Object::new();
        d.insert("c0".into(), Value::scalar(b));
        for with_else in [false, true] {
            let t = vec![Node::Cond {
                c: Cond::Exist(var("c0")),
                mode: false,
                thn: vec![text("U")],
                els: if with_else { Some(vec![text("E")]) } else { None },
                elsif: false,
            }];
            case(ctx, &parser, &format!("unless:{}", with_else as u8), t, &d);
        }
    }
    // 4. case/when with 1..4 arms, comma and `or` lists, duplicates and overlaps, over a small target pool
    let small: Vec<&(&str, Value, bool)> = pool.iter().filter(|(n, _, _)| ["nil", "i1", "f1", "s1", "sa", "true", "empty", "arr1"].contains(n)).collect();
    let mut rng = Rng::new(ctx.seed ^ 0xC06);
    for (nt, _, _) in &small {
        for arms in 1..=4usize {
            let reps = if ctx.tier_thorough { 60 } else { 12 };
            for _ in 0..reps {
                let mut a = Vec::new();
                for i in 0..arms {
                    let k = 1 + rng.below(3);
                    let vals: Vec<Expr> = (0..k)
                        .map(|_| {
                            let (n, v, l) = small[rng.below(small.len())];
                            if *l && rng.chance(1, 2) { Expr::Lit(v.clone()) } else { var(n) }
                        })
                        .collect();
                    a.push((vals, vec![text(&format!("<{}>", i))]));
                }
                let t = vec![Node::Case {
                    target: var(nt),
                    arms: a,
                    els: if rng.chance(1, 2) { Some(vec![text("E")]) } else { None },
                    comma: rng.chance(1, 2),
                }];
                case(ctx, &parser, "case", t, &data);
            }
        }
    }
    // 5. and/or chains up to length 4 (all connective patterns, all truth assignments), flat source
    for len in 1..=4usize {
        for conn in 0..(1u32 << (len - 1)) {
            for assign in 0..(1u32 << len) {
                let mut d = Object::new();
                let mut toks = Vec::new();
                for i in 0..len {
                    d.insert(format!("c{}", i).into(), Value::scalar(assign & (1 << i) != 0));
                    if i > 0 {
                        toks.push(if conn & (1 << (i - 1)) != 0 { FlatTok::And } else { FlatTok::Or });
                    }
                    toks.push(FlatTok::Atom(Cond::Exist(var(&format!("c{}", i)))));
                }
                case(ctx, &parser, &format!("andor:{}:{}", len, conn), ite(Cond::Flat(toks), true), &d);
            }
        }
    }
    // 5b. the first operand that decides a condition decides it: what follows is not evaluated, so an
    // operand that would raise (a comparison over an undefined name) does no harm behind it.
    // Chains of length 2..4, every connective pattern, every truth assignment of the plain atoms, the
    // raising atom at every position; the expectation is computed here from the grouping
    // `or` of `and`s with left-to-right evaluation.
    {
        let raisers: Vec<Cond> = vec![
            Cond::Bin(var("missing"), CmpOp::Eq, lit_i(1)),
            Cond::Bin(path("missing", &["deep"]), CmpOp::Eq, lit_i(1)),
            Cond::Bin(var("vnil"), CmpOp::Contains, lit_s("x")),
        ];
        for (ri, raiser) in raisers.iter().enumerate() {
            // does this atom raise on its own?  (if it does not, it simply has a truth value)
            let mut d0 = Object::new();
            d0.insert("vnil".into(), Value::Nil);
            let alone = render_text(&parser, &src_tmpl(&ite(raiser.clone(), true)), &d0);
            if matches!(alone, Obs::ParseErr(_)) {
                continue;
            }
            let raiser_val: Option<bool> = match &alone {
                Obs::Ok(s) => Some(s == "T"),
                _ => None,
            };
            for len in 2..=4usize {
                for conn in 0..(1u32 << (len - 1)) {
                    for pos in 0..len {
                        for assign in 0..(1u32 << len) {
                            if assign & (1 << pos) != 0 {
                                continue; // the flag at the raiser's position is unused: one representative
                            }
                            let mut d = d0.clone();
                            let mut toks = Vec::new();
                            // atoms as Option<bool>: None = raises
                            let mut vals: Vec<Option<bool>> = Vec::new();
                            for i in 0..len {
                                if i > 0 {
                                    toks.push(if conn & (1 << (i - 1)) != 0 { FlatTok::And } else { FlatTok::Or });
                                }
                                if i == pos {
                                    toks.push(FlatTok::Atom(raiser.clone()));
                                    vals.push(raiser_val);
                                } else {
                                    let b = assign & (1 << i) != 0;
                                    d.insert(format!("c{}", i).into(), Value::scalar(b));
                                    toks.push(FlatTok::Atom(Cond::Exist(var(&format!("c{}", i)))));
                                    vals.push(Some(b));
                                }
                            }
                            // reference: groups of `and`s joined by `or`, evaluated left to right
                            let mut want: Option<bool> = Some(false); // None = error
                            let mut i = 0;
                            'groups: while i < len {
                                let mut j = i;
                                while j + 1 < len && conn & (1 << j) != 0 {
                                    j += 1;
                                }
                                // conjunction of atoms i..=j
                                let mut g = Some(true);
                                for k in i..=j {
                                    match vals[k] {
                                        None => {
                                            g = None;
                                            break;
                                        }
                                        Some(false) => {
                                            g = Some(false);
                                            break;
                                        }
                                        Some(true) => {}
                                    }
                                }
                                match g {
                                    None => {
                                        want = None;
                                        break 'groups;
                                    }
                                    Some(true) => {
                                        want = Some(true);
                                        break 'groups;
                                    }
                                    Some(false) => {}
                                }
                                i = j + 1;
                            }
                            let w = match want {
                                Some(true) => "T",
                                Some(false) => "F",
                                None => "err",
                            };
                            case(ctx, &parser, &format!("short:{}:{}:{}:{}:want={}", ri, len, conn, pos, w), ite(Cond::Flat(toks), true), &d);
                        }
                    }
                }
            }
        }
    }
    // 6. random nesting: mixed binary atoms in and/or chains inside if/unless inside each other
    let n = if ctx.tier_thorough { 100_000 } else { 4_000 };
    for _ in 0..n {
        let len = 1 + rng.below(4);
        let mut toks = Vec::new();
        for i in 0..len {
            if i > 0 {
                toks.push(if rng.chance(1, 2) { FlatTok::And } else { FlatTok::Or });
            }
            let (na, _, _) = &pool[rng.below(pool.len())];
            let atom = if rng.chance(1, 3) {
                Cond::Exist(var(na))
            } else {
                let (nb, vb, lb) = &pool[rng.below(pool.len())];
                let rhs = if *lb && rng.chance(1, 2) { Expr::Lit(vb.clone()) } else { var(nb) };
                Cond::Bin(var(na), OPS[rng.below(7)], rhs)
            };
            toks.push(FlatTok::Atom(atom));
        }
        let inner = Node::Cond { c: Cond::Flat(toks), mode: rng.chance(2, 3), thn: vec![text("t")], els: Some(vec![text("f")]), elsif: false };
        let (nc, _, _) = &pool[rng.below(pool.len())];
        let t = vec![Node::Cond { c: Cond::Exist(var(nc)), mode: rng.chance(1, 2), thn: vec![text("A"), inner.clone()], els: Some(vec![text("B"), inner]), elsif: false }];
        case(ctx, &parser, "random", t, &data);
    }
}
