//! C14: array filters neither invent nor lose elements beyond their contract.
//! Follows the property's quantifier text:
//!  * exhaustively all arrays of length 0..5 over pools of comparable scalars with duplicates and
//!    nils (integers; strings incl. case variants; a mixed pool), through every array filter;
//!  * arrays of length 0..4 over a pool of single-key / two-key objects whose property is present,
//!    missing, nil or false, through the property-taking filters;
//!  * the slice offset/length grid, concat of all short pairs;
//!  * random arrays of length up to 60 (past the 20-element switch of `sort_by`) presented in
//!    several initial orders, over homogeneous and mixed (incomparable) pools;
//!  * non-array inputs, wrong arities, nil / absent property names.
//! Values are applied to the real filters through the plugin API (`filters::apply`).
use crate::filters::{apply, filter_case, language};
use crate::rng::Rng;
use crate::Ctx;
use liquid_core::model::{Object, Value};
use liquid_core::parser::Language;

fn i(n: i64) -> Value {
    Value::scalar(n)
}
fn s(t: &str) -> Value {
    Value::scalar(t.to_owned())
}
fn f(x: f64) -> Value {
    Value::scalar(x)
}
fn b(x: bool) -> Value {
    Value::scalar(x)
}
fn arr(v: Vec<Value>) -> Value {
    Value::Array(v)
}
fn obj(kvs: &[(&str, Value)]) -> Value {
    let mut o = Object::new();
    for (k, v) in kvs {
        o.insert((*k).to_owned().into(), v.clone());
    }
    Value::Object(o)
}

fn jekyll_language() -> Language {
    let mut l = Language::empty();
    let t: Box<dyn liquid_core::ParseFilter> = liquid_lib::jekyll::Sort.into();
    l.filters.register("sort".to_owned(), t);
    l
}

struct G<'a> {
    ctx: &'a mut Ctx,
    std: Language,
    jek: Language,
}

impl<'a> G<'a> {
    fn case(&mut self, kind: &str, name: &str, input: &Value, args: &[Value]) {
        let obs = if name == "jekyll_sort" {
            apply(&self.jek, "sort", input, args)
        } else {
            apply(&self.std, name, input, args)
        };
        self.ctx.emit(filter_case("c14", kind, name, input, args, &obs));
    }

    /// the argument-free filters on one array
    fn scalars_battery(&mut self, kind: &str, a: &Value, with_index: bool) {
        for name in ["sort", "sort_natural", "uniq", "reverse", "compact", "jekyll_sort"] {
            self.case(kind, name, a, &[]);
        }
        if with_index {
            for name in ["first", "last", "size", "join"] {
                self.case(kind, name, a, &[]);
            }
            self.case(kind, "join", a, &[s(",")]);
        }
    }

    fn objects_battery(&mut self, kind: &str, a: &Value) {
        for name in ["sort", "sort_natural", "map", "compact", "where"] {
            self.case(kind, name, a, &[s("p")]);
        }
        self.case(kind, "map", a, &[s("q")]);
        // property name absent from every object, and nil as the property name
        // names of the synthetic members every object answers on a variable path
        for p in [s("zz"), Value::Nil, s("size"), s("first"), s("last")] {
            for name in ["sort", "sort_natural", "map", "compact", "where"] {
                self.case(kind, name, a, &[p.clone()]);
            }
        }
        for t in [i(1), b(false), Value::Nil, s("b"), b(true)] {
            self.case(kind, "where", a, &[s("p"), t]);
        }
        for name in ["sort", "sort_natural", "uniq", "reverse", "compact", "first", "last", "size"] {
            self.case(kind, name, a, &[]);
        }
    }
}

/// all arrays of length `0..=max_len` over `pool`
fn for_all_arrays(pool: &[Value], max_len: usize, mut fun: impl FnMut(&Value)) {
    for len in 0..=max_len {
        let total = pool.len().pow(len as u32);
        for code in 0..total {
            let mut c = code;
            let mut v = Vec::with_capacity(len);
            for _ in 0..len {
                v.push(pool[c % pool.len()].clone());
                c /= pool.len();
            }
            fun(&arr(v));
        }
    }
}

fn shuffle(rng: &mut Rng, v: &mut Vec<Value>) {
    for k in (1..v.len()).rev() {
        let j = rng.below(k + 1);
        v.swap(k, j);
    }
}

/// a deterministic "sorted-looking" arrangement independent of the code under test: by the
/// protocol encoding of the value
fn by_encoding(v: &mut Vec<Value>) {
    v.sort_by_key(|x| crate::proto::value_tokens(x));
}

fn date(y: i32, m: u8, d: u8) -> Value {
    Value::scalar(liquid_core::model::Date::from_ymd(y, m, d))
}
fn datetime(text: &str) -> Value {
    Value::scalar(liquid_core::model::DateTime::from_str(text).expect("datetime literal"))
}

fn random_pool(which: usize) -> (&'static str, Vec<Value>) {
    match which {
        0 => ("rand-int", (-4..=6).map(i).chain([i(100), i(-100), i(i64::MAX), i(i64::MIN)]).collect()),
        1 => (
            "rand-str",
            ["", "a", "A", "b", "B", "ab", "aB", "Ab", "z", "10", "9", "é", "É", "Жук", "жук", "a b",
             // strings that spell special numbers are strings like any other
             "nan", "NaN", "Nan", "inf", "-inf", "Infinity", "1e3", "0x10", "-0", "+1", "true", "nil"].iter().map(|t| s(t)).collect(),
        ),
        2 => ("rand-int-str", (0..=5).map(i).chain(["a", "b", "c", "0", "3"].iter().map(|t| s(t))).collect()),
        3 => (
            "rand-mixed",
            (0..=3)
                .map(i)
                .chain(["a", "B", "b", ""].iter().map(|t| s(t)))
                .chain([b(true), b(false), Value::Nil, Value::Nil, date(2020, 1, 2), date(1999, 12, 31)])
                .collect(),
        ),
        4 => (
            "rand-float",
            [0.0, -0.0, 1.5, -1.5, 2.0, 1e300, -1e300, f64::INFINITY, f64::NEG_INFINITY, f64::NAN, 0.1, 3.0]
                .iter()
                .map(|x| f(*x))
                .chain([s("a"), s("b"), Value::Nil, b(true)])
                .collect(),
        ),
        5 => ("rand-int-float", (-3..=3).map(i).chain([0.0, 0.5, 1.0, -1.0, 2.5, -2.5, 3.0].iter().map(|x| f(*x))).chain([Value::Nil]).collect()),
        6 => (
            // single-key objects with integer values: plain `sort` compares them entry-wise
            "rand-obj-plain",
            (0..=5).map(|k| obj(&[("p", i(k))])).chain([Value::Nil, obj(&[("p", i(2))])]).collect(),
        ),
        _ => (
            "rand-obj",
            vec![
                obj(&[("p", i(1))]),
                obj(&[("p", i(2))]),
                obj(&[("p", i(3)), ("q", i(0))]),
                obj(&[("p", Value::Nil)]),
                obj(&[("p", b(false))]),
                obj(&[("q", i(1))]),
                obj(&[("p", s("b")), ("q", i(1))]),
                obj(&[("p", s("B")), ("q", i(2))]),
                obj(&[("p", s("a"))]),
                obj(&[("p", i(2)), ("q", i(9))]),
            ],
        ),
    }
}

pub fn run(ctx: &mut Ctx) {
    let thorough = ctx.tier_thorough;
    let mut rng = Rng::new(ctx.seed);
    let mut g = G { ctx, std: language(false), jek: jekyll_language() };

    // ---- D8: the shape that made `sort_by` panic at the pinned commit ----
    for n in [24usize, 40, 60] {
        let mut v: Vec<Value> = Vec::new();
        for k in 0..n {
            v.push(if k % 2 == 0 { i(((k * 7) % 13) as i64) } else { s(["a", "b", "c"][k % 3]) });
        }
        for _ in 0..20 {
            shuffle(&mut rng, &mut v);
            let a = arr(v.clone());
            g.case("d8-int-str", "sort", &a, &[]);
            g.case("d8-int-str", "jekyll_sort", &a, &[]);
        }
    }

    // the same shape with strings that spell numbers ("10" < "9" as strings; they are not numbers)
    for n in [24usize, 40, 60] {
        let mut v: Vec<Value> = Vec::new();
        for k in 0..n {
            v.push(if k % 2 == 0 { i(((k * 7) % 13) as i64) } else { s(["10", "9", "2", "1.5"][k % 4]) });
        }
        for _ in 0..10 {
            shuffle(&mut rng, &mut v);
            let a = arr(v.clone());
            g.case("d8-int-numstr", "sort", &a, &[]);
            g.case("d8-int-numstr", "jekyll_sort", &a, &[]);
        }
    }

    // jekyll's `sort` parses its property argument as a variable path: strings that are not one
    {
        let a = arr(vec![obj(&[("p", i(2))]), obj(&[("p", i(1))]), obj(&[("q", i(0))])]);
        for p in ["", " ", "1", "1x", "p.", "p[", "p q", "é", "-", "p..q", "[0]", "'p'", "p[0", "nil", "true"] {
            g.case("jekyll-sort-property", "jekyll_sort", &a, &[s(p)]);
            g.case("jekyll-sort-property", "jekyll_sort", &a, &[s(p), s("last")]);
        }
    }

    // ---- comparators that stay inconsistent after the repair, because `partial_cmp` itself is
    // inconsistent within one kind (C11 territory): fixed witnesses, judged by the spec only ----
    let residual: Vec<(&str, Vec<Value>)> = vec![
        ("residual-int-float", vec![i(9007199254740992), i(9007199254740993), i(9007199254740994), f(9007199254740992.0), f(9007199254740994.0)]),
        ("residual-date-datetime", vec![date(2020, 1, 1), date(2020, 1, 2), datetime("2020-01-02 00:30:00 +1400"), datetime("2020-01-01 23:00:00 -1000")]),
        ("residual-nested-array", vec![arr(vec![i(1), s("a")]), arr(vec![i(1), i(2)]), arr(vec![i(1), i(3)]), arr(vec![])]),
        ("residual-objects", vec![obj(&[("p", i(1))]), obj(&[("p", i(2))]), obj(&[("p", s("b"))]), obj(&[("p", s("a"))]), obj(&[("p", Value::Nil)])]),
    ];
    for (fam, (kind, pool)) in residual.iter().enumerate() {
        // independent of the run's seed, so a witness is a fixed, nameable input
        let mut r = Rng::new(0xC14_0000 + fam as u64);
        let mut v: Vec<Value> = (0..48).map(|k| pool[k % pool.len()].clone()).collect();
        for _ in 0..4 {
            shuffle(&mut r, &mut v);
            g.case(kind, "sort", &arr(v.clone()), &[]);
        }
    }

    // ---- exhaustive small arrays over scalar pools ----
    let pool_int = vec![Value::Nil, i(0), i(1), i(2)];
    let pool_str = vec![Value::Nil, s("a"), s("b"), s("B"), s("ab")];
    let pool_mixed = vec![Value::Nil, i(1), i(2), s("a"), s("B"), b(true), f(1.5)];
    for_all_arrays(&pool_int, 5, |a| g.scalars_battery("exh-int", a, true));
    // integers that are distinct as i64 but round to the same f64
    let pool_big = vec![i(9007199254740992), i(9007199254740993), i(9007199254740994), i(-9007199254740993), i(-9007199254740992), i(i64::MAX), i(i64::MAX - 1), i(1234567890123456789), i(1234567890123456788)];
    for_all_arrays(&pool_big, 3, |a| g.scalars_battery("exh-bigint", a, true));
    {
        // and as a sort key of objects
        let objs: Vec<Value> = [9007199254740993i64, 9007199254740992, 9007199254740994].iter().map(|k| obj(&[("p", i(*k)), ("q", i(*k % 7))])).collect();
        for_all_arrays(&objs, 3, |a| g.objects_battery("exh-bigint-key", a));
    }
    for_all_arrays(&pool_str, if thorough { 5 } else { 4 }, |a| g.scalars_battery("exh-str", a, true));
    // a property whose value is an array is a value like any other: `where` compares it as a whole
    {
        let arrv = |xs: Vec<Value>| Value::Array(xs);
        let objs: Vec<Value> = vec![
            obj(&[("p", arrv(vec![i(1), i(2)])), ("q", i(0))]),
            obj(&[("p", i(1)), ("q", i(1))]),
            obj(&[("p", arrv(vec![s("b")])), ("q", i(2))]),
            obj(&[("p", s("b")), ("q", i(3))]),
            obj(&[("p", arrv(vec![])), ("q", i(4))]),
        ];
        for_all_arrays(&objs, 3, |a| {
            for t in [i(1), i(2), s("b"), arrv(vec![s("b")]), arrv(vec![i(1), i(2)]), arrv(vec![]), Value::Nil] {
                g.case("exh-array-prop", "where", a, &[s("p"), t]);
            }
            g.case("exh-array-prop", "where", a, &[s("p")]);
            g.case("exh-array-prop", "map", a, &[s("p")]);
            g.case("exh-array-prop", "sort", a, &[s("q")]);
        });
    }
    // strings that spell numbers, special numbers and keywords are ordered as strings
    let pool_numstr = vec![s("nan"), s("NaN"), s("Alice"), s("bob"), s("inf"), s("10"), s("9"), s("1e3"), s("true")];
    for_all_arrays(&pool_numstr, 3, |a| g.scalars_battery("exh-numstr", a, true));
    {
        let objs: Vec<Value> = ["Alice", "Nan", "Bob", "nan"].iter().enumerate().map(|(k, n)| obj(&[("p", s(n)), ("q", i(k as i64))])).collect();
        for_all_arrays(&objs, 3, |a| g.objects_battery("exh-numstr-key", a));
    }
    for_all_arrays(&pool_mixed, if thorough { 5 } else { 4 }, |a| g.scalars_battery("exh-mixed", a, false));

    // ---- objects with a present / missing / nil / false property ----
    let pool_obj = vec![
        obj(&[("p", i(1))]),
        obj(&[("p", i(2))]),
        obj(&[("p", Value::Nil)]),
        obj(&[("p", b(false))]),
        obj(&[("q", i(1))]),
        obj(&[("p", s("b")), ("q", i(1))]),
        obj(&[("p", s("B")), ("q", i(2))]),
        obj(&[("p", i(1)), ("q", i(3))]),
    ];
    for_all_arrays(&pool_obj, if thorough { 4 } else { 3 }, |a| g.objects_battery("exh-obj", a));
    // an array of objects with one non-object mixed in
    for extra in [Value::Nil, i(1), s("p"), arr(vec![])] {
        for pos in 0..3 {
            let mut v = vec![pool_obj[0].clone(), pool_obj[5].clone()];
            v.insert(pos, extra.clone());
            g.objects_battery("obj-with-non-object", &arr(v));
        }
    }

    // ---- slice grid ----
    for n in 0..=6i64 {
        let a = arr((0..n).map(|k| i(10 + k)).collect());
        for off in (-n - 3)..=(n + 3) {
            g.case("slice-grid", "slice", &a, &[i(off)]);
            for len in 0..=(n + 2) {
                g.case("slice-grid", "slice", &a, &[i(off), i(len)]);
            }
        }
        g.case("slice-grid", "slice", &a, &[s("1"), s("2")]);
        g.case("slice-grid", "slice", &a, &[i(i64::MIN), i(3)]);
        g.case("slice-grid", "slice", &a, &[i(i64::MIN), i(i64::MAX)]);
        g.case("slice-grid", "slice", &a, &[i(-1), i(1 << 40)]);
    }

    // ---- concat of all short pairs ----
    let mut shorts: Vec<Value> = Vec::new();
    for_all_arrays(&pool_int, 2, |a| shorts.push(a.clone()));
    for x in &shorts {
        for y in &shorts {
            g.case("concat", "concat", x, &[y.clone()]);
        }
    }

    // ---- non-array inputs, arities, odd property names ----
    let inputs = vec![Value::Nil, i(5), s("héllo"), s(""), b(true), f(1.5), obj(&[("p", i(1))]), obj(&[]), arr(vec![i(1), Value::Nil, s("x")])];
    let names = ["sort", "sort_natural", "uniq", "reverse", "compact", "concat", "map", "where", "first", "last", "size", "join", "slice", "jekyll_sort"];
    let argsets: Vec<Vec<Value>> = vec![
        vec![],
        vec![s("p")],
        vec![Value::Nil],
        vec![i(1)],
        vec![arr(vec![i(7)])],
        vec![s("p"), i(1)],
        vec![i(0), i(2)],
        vec![s("p"), i(1), i(2)],
    ];
    for inp in &inputs {
        for name in names {
            for a in &argsets {
                g.case("non-array-and-arity", name, inp, a);
            }
        }
    }

    // ---- random arrays up to 60 elements, several initial orders ----
    let multisets = if thorough { 12000 } else { 320 };
    for m in 0..multisets {
        let (kind, pool) = random_pool(m % 8);
        let n = match rng.below(4) {
            0 => rng.below(21),
            1 => 21 + rng.below(12),
            _ => 21 + rng.below(40),
        };
        // skew the multiplicities: draw from a random sub-pool
        let sub = 1 + rng.below(pool.len());
        let mut v: Vec<Value> = (0..n).map(|_| pool[rng.below(sub.max(2).min(pool.len()))].clone()).collect();
        let mut orders: Vec<Vec<Value>> = Vec::new();
        by_encoding(&mut v);
        orders.push(v.clone());
        v.reverse();
        orders.push(v.clone());
        shuffle(&mut rng, &mut v);
        orders.push(v.clone());
        shuffle(&mut rng, &mut v);
        orders.push(v.clone());
        for o in orders {
            let a = arr(o);
            if kind == "rand-obj" {
                for name in ["sort", "sort_natural", "compact", "map", "where"] {
                    g.case(kind, name, &a, &[s("p")]);
                }
                g.case(kind, "uniq", &a, &[]);
                g.case(kind, "jekyll_sort", &a, &[s("p")]);
            } else {
                g.scalars_battery(kind, &a, false);
            }
        }
    }
}
