//! C09: rendering is repeatable.  Histories of render calls on ONE shared parser (lazy partial
//! store, so that the cache is in play) drawn from 3 templates x 2 data objects with stateful
//! constructs (assign, counters, cycle, ifchanged, capture, a pending break, lazily cached valid
//! and broken partials, renders that fail midway); exhaustive for k <= 3, random up to k = 6; each
//! call's result is compared with the same (template, data) on a freshly built parser.
use crate::ast::*;
use crate::c08::scenario;
use crate::gen::Gen;
use crate::run::*;
use crate::Ctx;
use liquid_core::model::{Object, Value};

fn fixed_templates() -> Vec<Vec<Node>> {
    let cyc = Node::Cycle { name: Some("g".into()), vals: vec![lit_s("one"), lit_s("two"), lit_s("three")] };
    vec![
        // counters, cycle, assign, ifchanged, include of a lazily compiled partial
        vec![Node::Incr("n".into()), cyc.clone(), Node::Assign("a".into(), lit_s("set"), vec![]), out(var("a")),
             Node::IfChanged(vec![text("same")]), Node::IfChanged(vec![text("same")]), Node::Include(lit_s("p1"), vec![]), cyc.clone()],
        // fails midway: inside a loop, inside capture, after state was changed; leaves a pending break
        vec![Node::Incr("n".into()), cyc.clone(),
             Node::For { x: "i".into(), rng: RangeE::Counted(lit_i(1), lit_i(3)), limit: None, offset: None, rev: false,
                         body: vec![out(var("i")), Node::Capture("c".into(), vec![Node::Include(lit_s("broken"), vec![])])], els: None }],
        // fails inside a capture AFTER the body has written text; then (other renders) captures again
        vec![Node::Capture("c".into(), vec![text("partial-output,"), out(path("probe", &["x"])), text("!")]), text("<"), out(var("c")), text(">"),
             Node::Include(var("which"), vec![])],
        // reads everything the others may have left behind; ends with a pending break
        vec![out(path("probe", &["x"])), Node::Decr("n".into()), cyc, text("["),
             Node::Cond { c: Cond::Exist(var("a")), mode: true, thn: vec![text("LEAK-a")], els: None, elsif: false },
             Node::Cond { c: Cond::Exist(var("c")), mode: true, thn: vec![text("LEAK-c")], els: None, elsif: false },
             text("]"), Node::IfChanged(vec![text("same")]), Node::Render(lit_s("p1"), RForm::Plain, vec![]), Node::Break, text("unreachable")],
    ]
}

fn emit_history(ctx: &mut Ctx, kind: &str, templates: &[Vec<Node>], datas: &[Object], partials: &[PartialDef], hist: &[(usize, usize)]) {
    let shared = build_parser(partials, Policy::Lazy);
    let parsed: Vec<_> = templates.iter().map(|t| src_tmpl(t)).collect();
    // every template is parsed ONCE on the shared parser; the history renders these same objects
    let objects: Vec<_> = parsed.iter().map(|s| parse_once(&shared, s)).collect();
    for (pos, (ti, di)) in hist.iter().enumerate() {
        let before = serde_json::to_string(&datas[*di]).unwrap();
        let got = render_parsed(&objects[*ti], &datas[*di]);
        let after = serde_json::to_string(&datas[*di]).unwrap();
        // the reference: a freshly built parser, a fresh parse, on a fresh OS thread (so that not even
        // thread-local state of this thread can be shared with the history)
        let fresh = std::thread::scope(|sc| {
            sc.spawn(|| render_text(&build_parser(partials, Policy::Lazy), &parsed[*ti], &datas[*di])).join().unwrap_or(Obs::Panic("reference thread".into()))
        });
        let k = if got.tokens() != fresh.tokens() {
            format!("LEAK:{}:{}", hist.len(), pos)
        } else if before != after {
            format!("DATA-MODIFIED:{}:{}", hist.len(), pos)
        } else {
            format!("{}:{}:{}", kind, hist.len(), pos)
        };
        ctx.emit(render_case("c09", &k, &templates[*ti], &datas[*di], partials, &got));
    }
}

/// Histories over templates given as text (filter chains, very large outputs) through BOTH render APIs
/// (`render_to` into a fresh buffer and the buffered `Template::render`), each call compared with a fresh
/// parser on a fresh thread; judged by that comparison alone (`c09x`).
fn run_text_hist(ctx: &mut Ctx, partials: &[PartialDef], texts: &[&str], datas: &[Object], hists: Vec<Vec<(usize, usize)>>, silent: &[usize]) {
    let shared = build_parser(partials, Policy::Lazy);
    let objects: Vec<_> = texts.iter().map(|s| parse_once(&shared, s)).collect();
    for hist in hists {
        for (pos, (ti, di)) in hist.iter().enumerate() {
            let streamed = render_parsed(&objects[*ti], &datas[*di]);
            let buffered = match &objects[*ti] {
                Ok(t) => match std::panic::catch_unwind(std::panic::AssertUnwindSafe(|| t.render(&datas[*di]))) {
                    Ok(Ok(s)) => Obs::Ok(s),
                    Ok(Err(e)) => Obs::Err(e.to_string()),
                    Err(e) => Obs::Panic(panic_msg(e)),
                },
                Err(e) => Obs::ParseErr(e.clone()),
            };
            // the reference: a freshly built parser on a fresh thread (with room for deep recursion)
            let fresh = std::thread::scope(|sc| {
                std::thread::Builder::new()
                    .stack_size(64 << 20)
                    .spawn_scoped(sc, || render_text(&build_parser(partials, Policy::Lazy), texts[*ti], &datas[*di]))
                    .map(|h| h.join().unwrap_or(Obs::Panic("reference thread".into())))
                    .unwrap_or(Obs::Panic("reference thread".into()))
            });
            // … and a process of its own (nothing static or thread-local can be shared with it)
            let fresh = if silent.contains(ti) {
                fresh
            } else {
                match render_in_child(partials, texts[*ti], &datas[*di]) {
                    Some(tok) if tok != fresh.tokens() => Obs::Panic(format!("fresh process says {}", tok)),
                    _ => fresh,
                }
            };
            if silent.contains(ti) {
                // too large to print: only its effect on what follows is observed
                continue;
            }
            let k = if streamed.tokens() != fresh.tokens() || buffered.tokens() != fresh.tokens() { format!("LEAK:{}:{}", hist.len(), pos) } else { format!("text:{}:{}", hist.len(), pos) };
            ctx.emit(format!("c09x {} => {} #{}:{}", k, buffered.tokens(), crate::proto::xs(texts[*ti]), crate::proto::xs(&serde_json::to_string(&datas[*di]).unwrap_or_default())));
        }
    }
}

fn text_histories(ctx: &mut Ctx) {
    let partials: Vec<PartialDef> = vec![("sig".into(), Ok(vec![text("<"), out(var("name")), text(">")]))];
    let texts = [
        "{{ \"Hello, \" | append: name | upcase }}|{% assign p = \"/\" | append: name | append: \"/x\" %}{{ p }}|{{ name | append: \"!\" | prepend: \"<\" }}",
        "{{ \"a,b\" | split: sep | join: name }}|{{ 2 | plus: n | times: 3 }}|{{ \"x\" | default: name | size }}|{% include 'sig' %}",
        "{% for i in (1..140000) %}xxxxxxxxx{% endfor %}",
        "plain text, no markup",
        "  {{- name -}}  {% raw %}{{ r }}{% endraw %}",
    ];
    let mk = |name: &str, sep: &str, n: i64| {
        let mut d = Object::new();
        d.insert("name".into(), Value::scalar(name.to_string()));
        d.insert("sep".into(), Value::scalar(sep.to_string()));
        d.insert("n".into(), Value::scalar(n));
        d
    };
    let datas = [mk("Ann", ",", 1), mk("Bob", "b", 40)];
    // every ordered pair of calls, plus a long alternating run; the big template only ever first
    let mut hists: Vec<Vec<(usize, usize)>> = Vec::new();
    for t in [0usize, 1, 3, 4] {
        for (d1, d2) in [(0usize, 1usize), (1, 0), (0, 0)] {
            hists.push(vec![(t, d1), (t, d2), (t, d1)]);
        }
    }
    hists.push(vec![(2, 0), (3, 0), (4, 1), (0, 1)]);
    hists.push(vec![(0, 0), (2, 1), (4, 0), (3, 1), (1, 1)]);
    run_text_hist(ctx, &partials, &texts, &datas, hists, &[2]);
    // partials nested deeply at run time (bounded by the data), shallow and deep renders alternating
    let deep: Vec<PartialDef> = vec![
        ("deep".into(), Ok(vec![out(var("d")), text(" "), Node::Cond { c: Cond::Bin(var("d"), CmpOp::Lt, var("n")), mode: true,
            thn: vec![Node::Assign("d".into(), var("d"), vec![FCall { name: "plus".into(), args: vec![lit_i(1)] }]), Node::Include(lit_s("deep"), vec![])], els: None, elsif: false }])),
        ("deepr".into(), Ok(vec![out(var("d")), text(" "), Node::Cond { c: Cond::Bin(var("d"), CmpOp::Lt, var("n")), mode: true,
            thn: vec![Node::Assign("e".into(), var("d"), vec![FCall { name: "plus".into(), args: vec![lit_i(1)] }]), Node::Render(lit_s("deepr"), RForm::Plain, vec![("d".into(), var("e")), ("n".into(), var("n"))])], els: None, elsif: false }])),
    ];
    let dtexts = ["{% assign d = 1 %}{% include 'deep' %}|done", "{% render 'deepr', d: 1, n: n %}|done"];
    let ddatas: Vec<Object> = [3i64, 99, 100, 101, 102, 120].iter().map(|n| mk("x", ",", *n)).collect();
    let mut dh: Vec<Vec<(usize, usize)>> = Vec::new();
    for t in [0usize, 1] {
        dh.push(vec![(t, 2), (t, 3), (t, 2), (t, 0)]);
        dh.push(vec![(t, 5), (t, 1), (t, 4), (t, 2), (t, 0)]);
    }
    dh.push(vec![(0, 3), (1, 2), (0, 2), (1, 3), (1, 1)]);
    run_text_hist(ctx, &deep, &dtexts, &ddatas, dh, &[]);
    // filters that parse their input (dates, numbers): inputs that differ only in letter case or in
    // surrounding blanks are different inputs; what one of them gave must not colour the other
    let ptexts = [
        "[{{ d | date: '%Y-%m-%d' }}]",
        "{{ d | date: '%H:%M' }}|{{ n | plus: 1 }}|{{ n | times: 2 }}",
        "{{ d | upcase }}|{{ d | downcase | date: '%Y' }}",
    ];
    let mkd = |d: &str, n: &str| {
        let mut o = Object::new();
        o.insert("d".into(), Value::scalar(d.to_string()));
        o.insert("n".into(), Value::scalar(n.to_string()));
        o
    };
    let pdatas = [
        mkd("18 Apr 2018 10:00:00", "7"), mkd("18 APR 2018 10:00:00", " 7"), mkd(" 18 Apr 2018 10:00:00 ", "7 "), mkd("18 apr 2018 10:00:00", "07"),
        mkd("2018-04-18 10:00:00 +0000", "7.0"), mkd("2018-04-18 10:00:00 +0000 ", "7.0 "), mkd("1 March 2018", "x"), mkd("1 MARCH 2018", "X"),
    ];
    let mut ph: Vec<Vec<(usize, usize)>> = Vec::new();
    for t in 0..ptexts.len() {
        ph.push((0..pdatas.len()).map(|d| (t, d)).collect());
        ph.push((0..pdatas.len()).rev().map(|d| (t, d)).collect());
    }
    run_text_hist(ctx, &[], &ptexts, &pdatas, ph, &[]);
}

pub fn run(ctx: &mut Ctx) {
    text_histories(ctx);
    // --- fixed set, exhaustive histories k <= 3 (thorough: 4) ---
    let templates = fixed_templates();
    let p1: Vec<Node> = vec![text("<p1:"), Node::Incr("n".into()), Node::Assign("a".into(), lit_s("p"), vec![]), text(">")];
    let partials: Vec<PartialDef> = vec![("p1".into(), Ok(p1)), ("p2".into(), Ok(vec![text("<p2>")])), ("broken".into(), Err("{% for %}".into()))];
    let mut d0 = Object::new();
    d0.insert("probe".into(), { let mut o = Object::new(); o.insert("x".into(), Value::scalar("X")); Value::Object(o) });
    d0.insert("which".into(), Value::scalar("p1"));
    let mut d1 = Object::new(); // `probe.x` missing: the probing templates fail at their first read of it
    d1.insert("which".into(), Value::scalar("p2"));
    let datas = vec![d0, d1];
    let calls: Vec<(usize, usize)> = (0..templates.len()).flat_map(|t| (0..2).map(move |d| (t, d))).collect();
    let maxk = if ctx.tier_thorough { 4 } else { 3 };
    for k in 1..=maxk {
        let mut idx = vec![0usize; k];
        loop {
            let hist: Vec<(usize, usize)> = idx.iter().map(|i| calls[*i]).collect();
            emit_history(ctx, "exh", &templates, &datas, &partials, &hist);
            let mut j = 0;
            while j < k {
                idx[j] += 1;
                if idx[j] < calls.len() { break; }
                idx[j] = 0;
                j += 1;
            }
            if j == k { break; }
        }
    }
    // --- random scenario sets, random histories up to k = 6 ---
    let n = if ctx.tier_thorough { 20_000 } else { 800 };
    let mut g = Gen::new(ctx.seed ^ 0xC09);
    for i in 0..n {
        g.allow_errors = i % 2 == 0;
        let sc = scenario(&mut g);
        let mut templates = vec![sc.main.clone()];
        g.partials = sc.partials.iter().filter(|(_, p)| p.is_ok()).map(|(n, _)| n.clone()).collect();
        g.partials.push("broken".into());
        g.dynamic_names = true;
        for _ in 0..(1 + g.rng.below(2)) {
            templates.push(g.body(3, 4));
        }
        g.dynamic_names = false;
        let mut datas = vec![sc.data.clone()];
        for _ in 0..(1 + g.rng.below(2)) {
            let mut d = g.data();
            let names: Vec<String> = sc.partials.iter().map(|(n, _)| n.clone()).collect();
            let pn = if names.is_empty() || g.rng.chance(1, 3) { sc.data.get("pname").cloned().unwrap_or(Value::Nil) } else { Value::scalar(g.rng.pick(&names).clone()) };
            d.insert("pname".into(), pn);
            datas.push(d);
        }
        let k = 1 + g.rng.below(6);
        let hist: Vec<(usize, usize)> = (0..k).map(|_| (g.rng.below(templates.len()), g.rng.below(datas.len()))).collect();
        emit_history(ctx, "rand", &templates, &datas, &sc.partials, &hist);
    }
}
