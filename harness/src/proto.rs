//! Line protocol, Rust side: hex strings and the prefix encoding of values.
use liquid_core::model::{Value, ValueView};
use std::fmt::Write;

pub fn hex(s: &str) -> String {
    let mut o = String::with_capacity(s.len() * 2);
    for b in s.as_bytes() {
        write!(o, "{:02x}", b).unwrap();
    }
    o
}
pub fn hex_bytes(s: &[u8]) -> String {
    let mut o = String::with_capacity(s.len() * 2);
    for b in s {
        write!(o, "{:02x}", b).unwrap();
    }
    o
}
/// `x<hex>` string token
pub fn xs(s: &str) -> String {
    format!("x{}", hex(s))
}

/// Encode a liquid `Value` (object entries in the iteration order of *this* instance).
pub fn enc_value(v: &Value, out: &mut Vec<String>) {
    enc_view(v.as_view(), out)
}

pub fn enc_view(v: &dyn ValueView, out: &mut Vec<String>) {
    if v.is_nil() {
        out.push("N".into());
    } else if let Some(st) = v.as_state() {
        use liquid_core::model::State;
        out.push(
            match st {
                State::Truthy => "T",
                State::DefaultValue => "U",
                State::Empty => "E",
                State::Blank => "K",
            }
            .into(),
        );
    } else if let Some(s) = v.as_scalar() {
        enc_scalar(&s, out);
    } else if let Some(a) = v.as_array() {
        out.push(format!("A{}", a.size()));
        for e in a.values() {
            enc_view(e, out);
        }
    } else if let Some(o) = v.as_object() {
        out.push(format!("O{}", o.size()));
        for (k, e) in o.iter() {
            out.push(format!("k{}", hex(k.as_str())));
            enc_view(e, out);
        }
    } else {
        out.push("?".into());
    }
}

pub fn enc_scalar(s: &liquid_core::model::ScalarCow<'_>, out: &mut Vec<String>) {
    let v = s.to_value();
    // discriminate by type_name, the only public discriminator besides the coercions
    match s.type_name() {
        "whole number" => out.push(format!("I{}", s.to_integer().unwrap())),
        "fractional number" => {
            let f = s.to_float().unwrap();
            out.push(format!("F{:x}:{}", f.to_bits(), hex(&format!("{}", f))));
        }
        "boolean" => out.push(if s.to_bool().unwrap() { "B1".into() } else { "B0".into() }),
        "date time" => {
            let d = s.to_date_time().unwrap();
            let off = d.offset().whole_seconds() as i128;
            let loc = d.unix_timestamp_nanos() + off * 1_000_000_000;
            out.push(format!("D{}:{}:{}", loc, off, hex(&d.to_string())));
        }
        "date" => {
            let d = s.to_date().unwrap();
            let days = d.to_julian_day() as i64 - 2440588;
            out.push(format!("Y{}:{}", days, hex(&d.to_string())));
        }
        "string" => out.push(format!("S{}", hex(s.to_kstr().as_str()))),
        other => {
            let _ = v;
            out.push(format!("?{}", other))
        }
    }
}

pub fn value_tokens(v: &Value) -> String {
    let mut o = Vec::new();
    enc_value(v, &mut o);
    o.join(" ")
}

pub fn value_tokens_sorted(v: &Value) -> String {
    let mut o = Vec::new();
    enc_view_sorted(v.as_view(), &mut o);
    o.join(" ")
}

/// Like `enc_view` but object entries sorted by key (canonical form for observations where the
/// iteration order of a HashMap is not the point).
pub fn enc_view_sorted(v: &dyn ValueView, out: &mut Vec<String>) {
    if let Some(a) = v.as_array() {
        out.push(format!("A{}", a.size()));
        for e in a.values() {
            enc_view_sorted(e, out);
        }
    } else if let Some(o) = v.as_object() {
        out.push(format!("O{}", o.size()));
        let mut es: Vec<_> = o.iter().collect();
        es.sort_by(|a, b| a.0.as_str().cmp(b.0.as_str()));
        for (k, e) in es {
            out.push(format!("k{}", hex(k.as_str())));
            enc_view_sorted(e, out);
        }
    } else {
        enc_view(v, out)
    }
}
