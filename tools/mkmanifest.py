#!/usr/bin/env python3
"""Regenerate /verif/MANIFEST.json from tools/props.py (claimed properties) — run after editing PROPS."""
import json, os, sys
sys.path.insert(0, os.path.dirname(os.path.abspath(__file__)))
import props
ROOT = props.ROOT
checks = []
for pid in sorted(props.PROPS):
    c = props.PROPS[pid]
    checks.append({
        "property_id": pid,
        "quick_cmd": "./check %s --tier quick" % pid,
        "thorough_cmd": "./check %s --tier thorough" % pid,
        "evidence_file": "/verif/evidence/%s.json" % pid,
        "replay_cmd_template": "./check %s --replay {path}" % pid,
        "engine": "lean4-proof+correspondence",
        "level_claimed": {"category": "proof", "text": c["manifest_text"], "design_ref": c["design_ref"]},
        "level_note": c["manifest_note"],
        "technique": c["technique"],
    })
allp = [json.loads(l)["id"] for l in open(os.path.join(ROOT, "properties.jsonl"))]
na = [{"property_id": p, "reason": props.NOT_APPLICABLE.get(p, "not yet claimed: model/theorems under construction (will be claimed, not inapplicable)")}
      for p in allp if p not in props.PROPS]
m = {
    "version": 1,
    "setup_cmd": "./setup.sh",
    "hooks": {"guard": "liquid_rust_verif", "enable": "no hooks needed: every observation goes through public API; the harness builds /repo's crates by path dependency from the current working tree",
              "baseline_off_cmd": "cd /repo && cargo test --workspace --no-fail-fast --offline", "source_commits": [], "add_only": True},
    "engines": [{"name": "lean4-proof+correspondence", "path": "/verif/check", "serves_properties": sorted(props.PROPS),
                 "kind_free_text": "Lean 4 model + theorems (lean/), Rust differential harness (harness/), python orchestration (check)"}],
    "checks": checks,
    "notes": "Each check re-proves the property's Lean theorems (lake build + #print axioms audit + source lint) and re-runs the model/implementation correspondence against /repo's current working tree.",
    "not_applicable": na,
}
json.dump(m, open(os.path.join(ROOT, "MANIFEST.json"), "w"), indent=1)
print("claimed:", " ".join(sorted(props.PROPS)))
