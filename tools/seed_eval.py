#!/usr/bin/env python3
"""seed_eval.py — confirm a seeded change and run the checks against it.

  seed_eval.py confirm Cxx mK          in the scratch worktree /tmp/mut-Cxx (never /repo):
                                         * apply out/mK/patch.diff, run the whole unedited suite -> must pass
                                         * add out/mK/demo.rs as tests/seed_demo.rs -> must FAIL with the change
                                         * undo the change -> the demo must PASS
  seed_eval.py run Cxx mK [checks…]    git -C /repo apply patch; run the named quick checks (default: all 20)
                                       from the snapshot of /verif in /tmp/ve (so that work in /verif goes on);
                                       git -C /repo checkout -- . straight afterwards.
  seed_eval.py store Cxx mK            copy patch/demo/README + the results into /verif/seeded/Cxx-mK/ with meta.json
  seed_eval.py readme                  regenerate /verif/seeded/README.md from the meta.json files
Results are kept in /tmp/seedres/Cxx-mK.json between the steps.
"""
import json, os, re, subprocess, sys, shutil, time, glob

ENV = dict(os.environ, CARGO_NET_OFFLINE="true", CARGO_TARGET_DIR=os.environ.get("SEED_TARGET", "/tmp/seedtarget"))
RES = "/tmp/seedres"
ALL = ["C%02d" % i for i in range(1, 21)]

def sh(cmd, cwd=None, env=None, timeout=3600):
    p = subprocess.run(cmd, shell=True, cwd=cwd, env=env or ENV, stdout=subprocess.PIPE, stderr=subprocess.STDOUT,
                       text=True, timeout=timeout)
    return p.returncode, p.stdout

def srcdir(pid, m):
    """where the author's deliverables live: round 1 = /tmp/mut-Cxx/out/m1|m2, round 2 (m3) = /tmp/mut2-Cxx/out/m1"""
    if m == "m3":
        return "/tmp/mut2-%s" % pid, "/tmp/mut2-%s/out/m1" % pid
    if m == "m4":
        return "/tmp/mut3-%s" % pid, "/tmp/mut3-%s/out/m1" % pid
    if m == "m5":
        return "/tmp/mut4-%s" % pid, "/tmp/mut4-%s/out/m1" % pid
    if m == "m6":
        return "/tmp/mut5-%s" % pid, "/tmp/mut5-%s/out/m1" % pid
    return "/tmp/mut-%s" % pid, "/tmp/mut-%s/out/%s" % (pid, m)

def load(key):
    os.makedirs(RES, exist_ok=True)
    f = "%s/%s.json" % (RES, key)
    return json.load(open(f)) if os.path.exists(f) else {}

def save(key, d):
    json.dump(d, open("%s/%s.json" % (RES, key), "w"), indent=1)

def suite_summary(out):
    oks = len(re.findall(r"^test result: ok", out, re.M))
    bad = re.findall(r"^test result: FAILED.*$", out, re.M)
    failed = sorted(set(re.findall(r"^test (\S+) \.\.\. FAILED", out, re.M)))
    return oks, bad, failed

def confirm(pid, m):
    w, o = srcdir(pid, m)
    key = "%s-%s" % (pid, m)
    d = load(key)
    sh("git checkout -- . && git clean -fdq -- crates src && rm -f tests/seed_demo.rs", cwd=w)
    rc, out = sh("git apply --check %s/patch.diff && git apply %s/patch.diff" % (o, o), cwd=w)
    if rc != 0:
        d["confirm"] = {"ok": False, "why": "patch does not apply: " + out[-500:]}; save(key, d); print(d["confirm"]); return
    t0 = time.time()
    rc, out = sh("cargo test --workspace --no-fail-fast --offline 2>&1", cwd=w)
    oks, bad, failed = suite_summary(out)
    compiled = "error: could not compile" not in out
    suite_ok = compiled and not bad and not failed and oks > 10
    # demo with the change
    shutil.copy(o + "/demo.rs", w + "/tests/seed_demo.rs")
    rc1, out1 = sh("cargo test --offline --test seed_demo 2>&1", cwd=w)
    demo_fails_with = rc1 != 0 and "could not compile" not in out1
    sh("git checkout -- . && git clean -fdq -- crates src", cwd=w)
    rc2, out2 = sh("cargo test --offline --test seed_demo 2>&1", cwd=w)
    demo_passes_without = rc2 == 0
    os.remove(w + "/tests/seed_demo.rs")
    d["confirm"] = {
        "ok": bool(suite_ok and demo_fails_with and demo_passes_without),
        "compiles": compiled, "suite_ok_result_lines": oks, "suite_failed": failed + bad,
        "demo_fails_with_change": demo_fails_with, "demo_passes_without_change": demo_passes_without,
        "demo_tail_with": out1[-1200:], "demo_tail_without": out2[-400:], "seconds": int(time.time() - t0),
        "ran": ["cargo test --workspace --no-fail-fast --offline   (change applied, unedited suite)",
                "cargo test --offline --test seed_demo            (change applied: must fail)",
                "cargo test --offline --test seed_demo            (change undone: must pass)"]}
    save(key, d)
    print(key, "confirm:", {k: v for k, v in d["confirm"].items() if k not in ("demo_tail_with", "demo_tail_without", "ran")})

def run(pid, m, checks):
    key = "%s-%s" % (pid, m)
    d = load(key)
    patch = srcdir(pid, m)[1] + "/patch.diff"
    if not os.path.exists(patch):
        patch = "/verif/seeded/%s/patch.diff" % key
    rc, out = sh("git -C /repo status --porcelain --untracked-files=no")
    if out.strip():
        print("REFUSING: /repo has local modifications:\n" + out); sys.exit(2)
    rc, out = sh("git -C /repo apply " + patch)
    if rc != 0:
        print("patch does not apply to /repo: " + out); sys.exit(2)
    results = d.get("checks", {})
    try:
        env = dict(os.environ, CARGO_NET_OFFLINE="true", VERIF_SEED=os.environ.get("VERIF_SEED", "0"))
        def one(c):
            t0 = time.time()
            rc, out = sh("/tmp/ve/check %s --tier %s 2>&1" % (c, os.environ.get("SEED_TIER", "quick")), cwd="/tmp/ve", env=env)
            viol = [l for l in out.splitlines() if l.startswith("VIOLATION")]
            replay = None
            if viol:
                mm = re.search(r"replay=(\S+)", viol[0])
                if mm and os.path.exists(mm.group(1)):
                    try:
                        rj = json.load(open(mm.group(1)))
                        replay = {k: (str(rj.get(k))[:600]) for k in ("why", "text", "data", "impl_observation", "driver_verdict") if rj.get(k) is not None}
                    except Exception as e:
                        replay = {"unreadable": str(e)}
            r = {"exit": rc, "violation": viol[:1], "no_failing_input": bool(viol and viol[0].rstrip().endswith("no-failing-input-found")),
                 "replay": replay, "seconds": int(time.time() - t0), "tail": out[-600:] if rc not in (0, 1) or (rc == 1 and not viol) else ""}
            print(key, c, "exit", rc, viol[:1], flush=True)
            return c, r
        # build the harness once against the changed tree, then run the checks a few at a time
        first = one(checks[0]); results[first[0]] = first[1]
        from concurrent.futures import ThreadPoolExecutor
        with ThreadPoolExecutor(max_workers=int(os.environ.get("SEED_JOBS", "5"))) as ex:
            for c, r in ex.map(one, checks[1:]):
                results[c] = r
    finally:
        sh("git -C /repo checkout -- . && git -C /repo clean -fdq -- crates src")
    d["checks"] = results
    save(key, d)

def store(pid, m):
    key = "%s-%s" % (pid, m)
    d = load(key)
    o = srcdir(pid, m)[1]
    dst = "/verif/seeded/" + key
    os.makedirs(dst, exist_ok=True)
    if os.path.isdir(o):
        for f in ("patch.diff", "demo.rs", "README.md"):
            if os.path.exists(o + "/" + f):
                shutil.copy(o + "/" + f, dst + "/" + f)
    readme = open(dst + "/README.md").read() if os.path.exists(dst + "/README.md") else ""
    meta_f = dst + "/meta.json"
    meta = json.load(open(meta_f)) if os.path.exists(meta_f) else {}
    # keep what the checks said the first time (before any strengthening prompted by this change)
    if "checks_run" in meta and "first_round" not in meta:
        meta["first_round"] = {"own_check": meta["checks_run"].get(pid), "caught_by": meta.get("caught_by")}
    summ = json.load(open("/verif/seeded/summaries.json")).get(key, {})
    meta.update(summ)
    caught = sorted(c for c, r in d.get("checks", {}).items() if r["exit"] == 1 and r["violation"])
    broken = sorted(c for c, r in d.get("checks", {}).items() if r["exit"] not in (0, 1) or (r["exit"] == 1 and not r["violation"]))
    meta.update({
        "id": key, "breaks_property": pid,
        "needs_to_manifest": meta.get("needs_to_manifest", ""),
        "summary": meta.get("summary", ""),
        "files_touched": sorted(set(re.findall(r"^\+\+\+ b/(\S+)", open(dst + "/patch.diff").read(), re.M))),
        "confirmed": d.get("confirm", {}),
        "checks_run": {c: {k: r[k] for k in ("exit", "violation", "no_failing_input", "replay", "seconds")} for c, r in sorted(d.get("checks", {}).items())},
        "caught_by": caught, "checks_broken_by_it": broken,
        "caught_by_own_property_check": pid in caught,
        "how_checks_were_run": "git -C /repo apply patch.diff; <snapshot of /verif>/check Cxx --tier quick for the listed checks; git -C /repo checkout -- ."})
    json.dump(meta, open(meta_f, "w"), indent=1)
    print("stored", dst, "caught_by", caught)

def readme():
    rows = []
    for f in sorted(glob.glob("/verif/seeded/*/meta.json")):
        m = json.load(open(f))
        own = m["breaks_property"]
        r = m["checks_run"].get(own, {})
        how = "not run"
        if r:
            if r["exit"] == 1 and r["violation"]:
                how = "VIOLATION" + (" (no-failing-input-found)" if r["no_failing_input"] else " with failing input")
            elif r["exit"] == 0:
                how = "MISSED"
            else:
                how = "check broke (exit %s)" % r["exit"]
        others = [c for c in m["caught_by"] if c != own]
        def verdict(r):
            if not r:
                return "not run"
            if r["exit"] == 1 and r["violation"]:
                return "VIOLATION" + (" (no-failing-input-found)" if r["no_failing_input"] else " with failing input")
            return "MISSED" if r["exit"] == 0 else "check broke (exit %s)" % r["exit"]
        first = verdict(m["first_round"]["own_check"]) if "first_round" in m else how
        rows.append("| %s | %s | %s | %s | %s | %s | %s |" % (m["id"], own, m.get("summary", "").replace("|", "/"),
                    m.get("needs_to_manifest", "").replace("|", "/"), first, how, " ".join(others) or "–"))
    txt = ["# Seeded changes", "",
           "Each directory holds one change to cobalt-org/liquid-rust that compiles, passes the unedited test suite and breaks",
           "one property (`patch.diff`, `demo.rs` = a test that fails with the change and passes without, the author's `README.md`,",
           "and `meta.json` = what was confirmed, what was run, what each check reported). None is ever committed to /repo.",
           "Regenerate this table with `python3 tools/seed_eval.py readme`.", "",
           "| id | property | change | needs | own check, first run | own check, now | also flagged by (now) |", "|---|---|---|---|---|---|---|"] + rows
    open("/verif/seeded/README.md", "w").write("\n".join(txt) + "\n")
    print("\n".join(txt))

if __name__ == "__main__":
    cmd = sys.argv[1]
    if cmd == "confirm": confirm(sys.argv[2], sys.argv[3])
    elif cmd == "run": run(sys.argv[2], sys.argv[3], sys.argv[4:] or ALL)
    elif cmd == "store": store(sys.argv[2], sys.argv[3])
    elif cmd == "readme": readme()
