#!/usr/bin/env python3
"""
Translate the `WHITESPACE` rule of crates/core/src/parser/grammar.pest into
lean/LiquidModel/Generated/Ws.lean (`Liquid.Lex.wsAlts : List (List Char)`: the rule's alternatives in
order, the pest builtin NEWLINE expanded to "\\n" | "\\r\\n" | "\\r").  Also records the shape of the rules
the hand-written lexer of Model/Lex.lean mirrors (delimiters, Raw, InvalidLiquid, Tag, Expression,
LaxLiquidFile) and fails if one of them no longer has the shape the lexer is written for.

The repository root is the directory the harness is built against (path of the `liquid` dependency in
harness/Cargo.toml), so model table and implementation always come from the same tree.
Only rewrites the output when its content changes.  Exit code != 0 = a shape is no longer recognised.
"""
import os, re, sys

ROOT = os.path.dirname(os.path.dirname(os.path.abspath(__file__)))


def repo_root():
    cargo = open(os.path.join(ROOT, "harness", "Cargo.toml")).read()
    m = re.search(r'^liquid\s*=\s*\{[^}]*path\s*=\s*"([^"]+)"', cargo, re.M)
    return m.group(1) if m else "/repo"


def strip_comments(src):
    out = []
    for line in src.split("\n"):
        # `//` outside string literals
        i, in_s, res = 0, False, []
        while i < len(line):
            c = line[i]
            if in_s:
                res.append(c)
                if c == "\\" and i + 1 < len(line):
                    res.append(line[i + 1]); i += 1
                elif c == '"':
                    in_s = False
            else:
                if c == '"':
                    in_s = True
                elif line.startswith("//", i):
                    break
                res.append(c)
            i += 1
        out.append("".join(res))
    return "\n".join(out)


def rules(src):
    """name -> (modifier, body) for every `Name = mod{ body }` (bodies contain no nested braces
    except pest's `{n}` repeat counts, which this grammar does not use)."""
    res = {}
    for m in re.finditer(r'(\w+)\s*=\s*([_@$!]?)\s*\{', src):
        # find the matching close brace, skipping string literals
        i, depth, in_s = m.end(), 1, False
        while i < len(src) and depth:
            c = src[i]
            if in_s:
                if c == "\\":
                    i += 1
                elif c == '"':
                    in_s = False
            elif c == '"':
                in_s = True
            elif c == "{":
                depth += 1
            elif c == "}":
                depth -= 1
            i += 1
        res[m.group(1)] = (m.group(2), src[m.end():i - 1])
    return res


def norm(body):
    """whitespace-insensitive form of a rule body (string literals kept verbatim)"""
    toks = re.findall(r'"(?:\\.|[^"\\])*"|\w+|[^\s\w]', body)
    return " ".join(toks)


ESC = {"n": "\n", "r": "\r", "t": "\t", "\\": "\\", '"': '"', "'": "'", "0": "\0"}


def unescape(lit):
    s, i, out = lit[1:-1], 0, []
    while i < len(s):
        if s[i] == "\\":
            i += 1
            if s[i] == "u":
                j = s.index("}", i)
                out.append(chr(int(s[i + 2:j], 16))); i = j
            elif s[i] == "x":
                out.append(chr(int(s[i + 1:i + 3], 16))); i += 2
            else:
                out.append(ESC[s[i]])
        else:
            out.append(s[i])
        i += 1
    return "".join(out)


def ws_alternatives(body, rs=None, depth=0):
    """the alternatives of a rule body made of string literals, NEWLINE and references to other silent
    rules of the same kind (expanded in place)"""
    alts = []
    for part in norm(body).split(" | "):
        part = part.strip()
        if part == "NEWLINE":
            alts += ["\n", "\r\n", "\r"]          # pest builtin: NEWLINE = "\n" | "\r\n" | "\r"
        elif re.fullmatch(r'"(?:\\.|[^"\\])*"', part):
            alts.append(unescape(part))
        elif rs is not None and re.fullmatch(r"\w+", part) and part in rs and rs[part][0] == "_" and depth < 8:
            alts += ws_alternatives(rs[part][1], rs, depth + 1)
        else:
            raise SystemExit("extract_ws: WHITESPACE alternative not recognised: %r" % part)
    return alts


# the shapes Model/Lex.lean is a transcription of (normalised)
EXPECTED = {
    "LaxLiquidFile": ("$", "SOI ~ ( Element | InvalidLiquid ) * ~ EOI"),
    "InvalidLiquid": ("", "! Expression ~ ANY"),
    "Element": ("_", "Expression | Tag | Raw"),
    "TagStart": ("_", '( WHITESPACE * ~ "{%-" ) | "{%"'),
    "TagEnd": ("_", '( "-%}" ~ WHITESPACE * ) | "%}"'),
    "ExpressionStart": ("_", '( WHITESPACE * ~ "{{-" ) | "{{"'),
    "ExpressionEnd": ("_", '( "-}}" ~ WHITESPACE * ) | "}}"'),
    "Tag": ("", "TagStart ~ WHITESPACE * ~ TagInner ~ WHITESPACE * ~ TagEnd"),
    "Expression": ("", "ExpressionStart ~ WHITESPACE * ~ ExpressionInner ~ WHITESPACE * ~ ExpressionEnd"),
    "Raw": ("@", "( ! ( TagStart | ExpressionStart ) ~ ANY ) +"),
    "TagInner": ("!", "Identifier ~ TagToken *"),
    "ExpressionInner": ("!", "FilterChain"),
    # the inner rules transcribed by Model/LexInner.lean, Model/Literal.lean and Model/MiniParse.lean
    'NON_WHITESPACE_CONTROL_HYPHEN': ('_', '! "-}}" ~ ! "-%}" ~ "-"'),
    'LiquidFile': ('$', 'SOI ~ Element * ~ EOI'),
    'Identifier': ('@', '( ASCII_ALPHA | "_" | NON_WHITESPACE_CONTROL_HYPHEN ) ~ ( ASCII_ALPHANUMERIC | "_" | NON_WHITESPACE_CONTROL_HYPHEN ) *'),
    'Variable': ('$', 'Identifier ~ ( ( "." ~ Identifier ) | ( "[" ~ WHITESPACE * ~ Value ~ WHITESPACE * ~ "]" ) ) *'),
    'Value': ('', 'Literal | Variable'),
    'Filter': ('', 'Identifier ~ ( ":" ~ FilterArgument ~ ( "," ~ FilterArgument ) * ) ?'),
    'FilterChain': ('', 'Value ~ ( "|" ~ Filter ) *'),
    'PositionalFilterArgument': ('', 'Value'),
    'KeywordFilterArgument': ('', 'Identifier ~ ":" ~ Value'),
    'FilterArgument': ('_', 'KeywordFilterArgument | PositionalFilterArgument'),
    'NilLiteral': ('@', '"nil" | "null"'),
    'EmptyLiteral': ('@', '"empty"'),
    'BlankLiteral': ('@', '"blank"'),
    'StringLiteral': ('@', '( "\'" ~ ( ! "\'" ~ ANY ) * ~ "\'" ) | ( "\\"" ~ ( ! "\\"" ~ ANY ) * ~ "\\"" )'),
    'IntegerLiteral': ('@', '( "+" | "-" ) ? ~ ASCII_DIGIT +'),
    'FloatLiteral': ('@', '( "+" | "-" ) ? ~ ASCII_DIGIT + ~ "." ~ ASCII_DIGIT +'),
    'BooleanLiteral': ('@', '"true" | "false"'),
    'Literal': ('', 'NilLiteral | EmptyLiteral | BlankLiteral | StringLiteral | FloatLiteral | IntegerLiteral | BooleanLiteral'),
    'Range': ('', '"(" ~ Value ~ ".." ~ Value ~ ")"'),
    'TagToken': ('_', 'Range | FilterChain | DoubleCharSymbol | SingleCharSymbol'),
    'SingleCharSymbol': ('_', 'GreaterThan | LesserThan | Assign | Comma | Colon'),
    'DoubleCharSymbol': ('_', 'Equals | NotEquals | LesserThanGreaterThan | GreaterThanEquals | LesserThanEquals'),
    'GreaterThan': ('', '">"'), 'LesserThan': ('', '"<"'), 'Assign': ('', '"="'), 'Comma': ('', '","'), 'Colon': ('', '":"'),
    'Equals': ('', '"=="'), 'NotEquals': ('', '"!="'), 'LesserThanGreaterThan': ('', '"<>"'),
    'GreaterThanEquals': ('', '">="'), 'LesserThanEquals': ('', '"<="'),
}


def lean_char(c):
    return "Char.ofNat %d" % ord(c)


def main():
    repo = repo_root()
    gpath = os.path.join(repo, "crates", "core", "src", "parser", "grammar.pest")
    src = strip_comments(open(gpath).read())
    rs = rules(src)
    errors = []
    for name, (mod, shape) in EXPECTED.items():
        if name not in rs:
            errors.append("rule %s missing" % name); continue
        gm, gb = rs[name]
        if gm != mod or norm(gb) != shape:
            errors.append("rule %s changed: now %s{ %s } (lexer model written for %s{ %s })" % (name, gm, norm(gb), mod, shape))
    if "WHITESPACE" not in rs or rs["WHITESPACE"][0] != "_":
        errors.append("WHITESPACE rule missing or not silent")
    if "COMMENT" in rs:
        errors.append("a COMMENT rule now exists (implicit skipping changed)")
    if errors:
        sys.stderr.write("extract_ws: " + "; ".join(errors) + "\n")
        sys.exit(1)
    alts = ws_alternatives(rs["WHITESPACE"][1], rs)
    body = []
    body.append("/- GENERATED by tools/extract_ws.py from crates/core/src/parser/grammar.pest — do not edit.")
    body.append("   WHITESPACE = _{ %s }   (NEWLINE expanded) -/" % norm(rs["WHITESPACE"][1]))
    body.append("namespace Liquid.Lex")
    body.append("")
    body.append("/-- the alternatives of the grammar's `WHITESPACE` rule, in order -/")
    body.append("def wsAlts : List (List Char) :=")
    body.append("  [" + ", ".join("[" + ", ".join(lean_char(c) for c in a) + "]" for a in alts) + "]")
    body.append("")
    body.append("end Liquid.Lex")
    text = "\n".join(body) + "\n"
    out = os.path.join(ROOT, "lean", "LiquidModel", "Generated", "Ws.lean")
    os.makedirs(os.path.dirname(out), exist_ok=True)
    old = open(out).read() if os.path.exists(out) else None
    if old != text:
        with open(out, "w") as h:
            h.write(text)
        print("extract_ws: wrote %s from %s" % (os.path.relpath(out, ROOT), gpath))
    else:
        print("extract_ws: %s up to date (%s)" % (os.path.relpath(out, ROOT), gpath))


if __name__ == "__main__":
    main()
