#!/usr/bin/env python3
"""validate MANIFEST.json and evidence/*.json against the given schemas (run with python3-vt)"""
import json, glob, sys, jsonschema
ok = True
jsonschema.validate(json.load(open('/verif/MANIFEST.json')), json.load(open('/root/.vp/MANIFEST.schema.json')))
sch = json.load(open('/root/.vp/EVIDENCE.schema.json'))
for f in sorted(glob.glob('/verif/evidence/*.json')):
    try:
        jsonschema.validate(json.load(open(f)), sch)
    except Exception as e:
        ok = False; print(f, 'INVALID', str(e)[:300])
print('valid' if ok else 'INVALID')
sys.exit(0 if ok else 1)
