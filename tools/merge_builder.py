#!/usr/bin/env python3
"""merge_builder.py Cxx [extra model files…] — copy a builder's property files from /tmp/w-Cxx into /verif and
splice its lines into Drv/All.lean, harness/src/main.rs and tools/props.py (entry text printed for manual edit)."""
import os, re, shutil, subprocess, sys
pid = sys.argv[1]; low = pid.lower()
src = "/tmp/w-" + pid; dst = "/verif"
def cp(rel):
    s, d = os.path.join(src, rel), os.path.join(dst, rel)
    if os.path.isdir(s):
        os.makedirs(d, exist_ok=True)
        for f in os.listdir(s):
            cp(os.path.join(rel, f))
    elif os.path.exists(s):
        os.makedirs(os.path.dirname(d), exist_ok=True)
        shutil.copy2(s, d); print("copied", rel)
# new/untracked files of the builder, except evidence/build output
out = subprocess.run(["git", "status", "--short"], cwd=src, capture_output=True, text=True).stdout
for line in out.splitlines():
    st, rel = line[:2], line[3:].strip()
    if rel.startswith(("evidence/", ".build", "replays/", "tools/builder_prompt.txt")):
        continue
    if st == "??":
        if os.path.exists(os.path.join(dst, rel.rstrip("/"))) and not rel.rstrip("/").endswith((pid + ".lean", low + ".rs")) and not os.path.isdir(os.path.join(src, rel)):
            print("SKIP (exists in /verif):", rel); continue
        cp(rel.rstrip("/"))
    else:
        print("MODIFIED shared file (merge by hand):", rel)
# Drv/All.lean
d = subprocess.run(["git", "diff", "--", "lean/LiquidModel/Drv/All.lean"], cwd=src, capture_output=True, text=True).stdout
adds = [l[1:] for l in d.splitlines() if l.startswith("+") and not l.startswith("+++")]
p = os.path.join(dst, "lean/LiquidModel/Drv/All.lean"); s = open(p).read()
for a in adds:
    if a in s: continue
    if a.startswith("import "):
        s = s.replace("namespace Liquid.Drv", a + "\nnamespace Liquid.Drv", 1)
    elif a.strip().startswith("|"):
        s = s.replace("  | _ => none", a + "\n  | _ => none", 1)
open(p, "w").write(s)
# main.rs
d = subprocess.run(["git", "diff", "--", "harness/src/main.rs"], cwd=src, capture_output=True, text=True).stdout
adds = [l[1:] for l in d.splitlines() if l.startswith("+") and not l.startswith("+++")]
p = os.path.join(dst, "harness/src/main.rs"); s = open(p).read()
for a in adds:
    if a.strip() and a in s: continue
    if a.startswith("mod ") or a.startswith("pub mod "):
        s = s.replace("pub mod filters;", a + "\npub mod filters;", 1)
    elif "=>" in a and "::run" in a:
        s = s.replace("        other => {", a + "\n        other => {", 1)
    elif a.strip():
        print("main.rs line not merged:", a)
open(p, "w").write(s)
d = subprocess.run(["git", "diff", "--", "tools/props.py"], cwd=src, capture_output=True, text=True).stdout
open("/tmp/props-%s.diff" % pid, "w").write(d)
print("props.py diff saved to /tmp/props-%s.diff" % pid)
