"""Per-property configuration and case-line helpers for ./check."""
import json, os, re

ROOT = os.path.dirname(os.path.dirname(os.path.abspath(__file__)))

TRUSTED_BASE = [
    "Lean 4.33.0 kernel (thorough tier: re-checked by leanchecker)",
    "axioms allowed in property theorems: propext, Classical.choice, Quot.sound (audited with #print axioms on every run); no sorry/admit/native_decide/bv_decide/own axioms (source lint on every run)",
    "statements of the theorems in lean/LiquidModel/Props/<id>.lean",
    "correspondence machinery: Rust harness (harness/), generators, hex line protocol, Lean decoder (Drv/Codec.lean), this script",
    "hand-written Lean model of the Rust code (lean/LiquidModel/Model/*.lean); tie to /repo is the differential run of this check, rebuilt from /repo's working tree",
]

def unhex(tok):
    try:
        return bytes.fromhex(tok).decode("utf-8", "replace")
    except ValueError:
        return "<bad hex>"

def describe_case(pid, line):
    """Split a case line into input / observation / readable text."""
    text = None
    data = None
    m = re.search(r" #x([0-9a-f]*)(?::x([0-9a-f]*))?$", line)
    body = line
    if m:
        text = unhex(m.group(1)); body = line[:m.start()]
        if m.group(2) is not None:
            data = unhex(m.group(2))
    toks = body.split(" ")
    kind = (toks[1] if len(toks) > 1 else toks[0]).split(":")[0]
    # by convention the observation is the last two tokens (tag, payload) for template ops;
    # other ops put it after a literal `=>` token
    if "=>" in toks:
        i = toks.index("=>")
        inp, obs = " ".join(toks[:i]), toks[i + 1:]
    else:
        inp, obs = " ".join(toks[:-2]), toks[-2:]
    obs_tag = obs[0] if obs else "?"
    obs_full = " ".join(obs)
    if len(obs) == 2 and obs[1].startswith("x"):
        obs_full = "%s %r" % (obs[0], unhex(obs[1][1:]))
    nontrivial = not (obs_tag == "ok" and len(obs) == 2 and obs[1] == "x")
    return {"kind": toks[0] + ":" + kind, "input": inp, "obs": obs_tag, "obs_full": obs_full, "text": text, "data": data, "nontrivial": nontrivial}

def sample(pid, info, driver_line):
    return {"kind": info["kind"], "input": info["text"] if info["text"] is not None else info["input"][:300], "data": info.get("data"),
            "implementation": info["obs_full"][:300], "model_verdict": driver_line[:120]}

def load_known(pid):
    f = os.path.join(ROOT, "known_findings.json")
    if not os.path.exists(f):
        return []
    return [k for k in json.load(open(f))["findings"] if k["property"] == pid and k["status"] == "open"]

def match_known(known, pid, info, driver_line):
    for k in known:
        if k.get("input") is not None and k["input"] == info["input"]:
            return k
        if k.get("text") is not None and info.get("text") == k["text"] and k.get("kind", info["kind"]) == info["kind"]:
            return k
    return None

def oracle_fails(pid, rec):
    """Property oracle on the implementation's observation, independent of the model: panics, hangs
    and invalid UTF-8 are violations of every property that renders or parses."""
    return rec["info"]["obs"] in ("PANIC", "HANG", "BADUTF8")

NOT_APPLICABLE = {}

PROPS = {
    "C04": {
        "rule": "ALL programs of up to 3 (quick) / 4 (thorough) nodes over {output a, output b, assign a = 1, assign b = a, increment a, decrement b, include p with and without an argument named a, capture a [..], for a in (1..2) [..], for b in arr [..], if a [..]} nested to depth 3, every node followed by a separator and the program by a final read, each rendered with and without `a` as a caller datum (the partial reads `a`, assigns `a` and increments `b`); then random programs of depth 4 from the shared generator (all tags and blocks, include/render of a partial, a third of them with constructs that fail); the caller data object is serialised before and after every render; non-trivial = distinct (template,data) with a non-empty result",
        "explanation": "Lean theorems C04_* (precedence of loop/include frames over assigned variables over caller data over counters; assign writes the nearest global frame from any depth and is then visible; a global frame never loses a name during the rest of the render, capture binds exactly what its body writes and prints nothing, frames are balanced and plain frames — caller data, loop variables — are never written, for EVERY template by the interpreter induction; increment prints then bumps) + differential run of the interpreter model against the real crate",
        "exhaustive": True,
        "manifest_text": "Lean 4 theorems proved for every template, runtime and sink by a generic induction principle over the render interpreter: rendering leaves exactly the frames it was given (a loop variable / include argument frame is gone when its block ends), never writes a plain frame (the caller's data object is never modified), and a global frame never loses a name once bound (assign/capture persist for the rest of the render); plus the lookup precedence loop/include frame > assigned variable > caller data > counter, assign reaching the nearest global frame from any depth, capture binding exactly the text its body writes while printing nothing, and increment/decrement semantics. Tied to /repo by rendering ALL programs up to a size bound over a deliberately colliding name alphabet and random larger programs with the real crate, comparing every output with the interpreter model and checking the caller data is unchanged.",
        "manifest_note": "Trusted: Lean kernel + allowed axioms, theorem statements, hand-written interpreter model (validated differentially here and on six other properties). `render` partials (isolation) are C08.",
        "technique": "Lean 4 proof (invariants lifted through the interpreter by a generic induction principle; refinement corollaries of C18) + exhaustive small-scope differential correspondence",
        "design_ref": "DESIGN.md section 7 C04",
    },
    "C10": {
        "rule": "generated templates with every writing construct (text, output tags, raw, cycle, increment/decrement, tablerow, ifchanged, capture, include/render of two partials, nested in loops, conditionals and case), a quarter of them with constructs that fail at render time; for each, a counting sink measures the W raw write calls of the fault-free run, then the render is repeated failing at EVERY k in 1..W and again accepting half of the k-th write before failing; non-trivial = distinct (template,data) with W >= 1",
        "explanation": "Lean theorems C10_* (prefix theorem for every template / start state / k via the sink simulation proved by the interpreter induction; accepted output is a prefix as fragments and as text; failing sink => the sink error; streamed = buffered; short writes; empty writes are free; generated table of write sites all propagate errors) + differential run: fault-free result and fragment structure against the model, and the spec (error, clean prefix ending exactly at the failing write, no write after the failure, no panic) evaluated on every fault run of the real crate",
        "exhaustive": False,
        "manifest_text": "Lean 4 theorem C10_prefix, proved for EVERY template, partial store, start runtime and failure index k by a generic induction principle over the render interpreter: against a sink that accepts only k writes the render returns the sink error having had exactly the first k fragments of the fault-free trace accepted and writes nothing afterwards, and behaves exactly like the fault-free run when k is large enough; corollaries: accepted output is always a prefix (fragments and text), streamed output = buffered render, short writes stay prefixes. A table of all write!() sites is regenerated from /repo on every run and proved (by decide) to propagate errors. Tied to /repo by failing the real render_to at every write index (and with short writes) of generated templates and checking error / exact prefix / no further writes, plus comparing the fault-free result and the write-site structure with the model.",
        "manifest_note": "Trusted: Lean kernel + allowed axioms, theorem statements, hand-written interpreter model (validated differentially on this and six other properties). How core::fmt splits one write!() into write() calls is not modelled: the model's fragments are whole write!() sites and the correspondence checks that every site boundary is a raw chunk boundary of the real run. Filters inside output tags are not modelled in this property's generator (none used).",
        "technique": "Lean 4 proof (simulation lemma lifted through the interpreter by a generic induction principle) + fault enumeration on the real sink",
        "design_ref": "DESIGN.md section 7 C10",
    },
    "C14": {
        "manifest_text": "Lean 4 theorems (36) about the model of the array filters (sort comparator after the fix: commit): sort, sort_natural and reverse return permutations of their input for every comparator; under a total-preorder hypothesis (proved for the repaired comparator on every mixture of integers/strings/booleans/dates/nils/markers, on floats with strings etc., and on floats with integers below 2^53) sort is sorted, stable, idempotent and nil-last, and any stable sorted permutation equals the model's (what ties std's sort_by to the model); sort_natural needs no hypothesis; uniq keeps exactly the first occurrences; compact removes exactly the nils; concat length is additive; map/where are filterMaps; first/last/size/slice/join agree with indexing; no modelled filter panics. Tied to /repo by exhaustive arrays of length 0..5 over the pool, random arrays up to 60 in every initial order incl. mixed incomparable types.",
        "manifest_note": "Trusted: Lean kernel + allowed axioms, theorem statements, hand-written model (validated differentially); std sort_by is assumed stable on consistent comparators (uniqueness theorem ties it to the model); str::to_lowercase is a parameter (table supplied by the driver). Residual genuine defect listed as known findings (exact inputs): partial_cmp is inconsistent inside one kind (integers >= 2^53 mixed with floats, dates mixed with date-times, arrays with incomparable members, objects), where std's sort_by may still panic; on inconsistent comparators only the spec (permutation, no panic) is consulted.",
        "technique": "Lean 4 proof (permutation, stable-sort uniqueness, lexicographic total preorder) + differential correspondence",
        "design_ref": "DESIGN.md section 7 C14",
        "rule": "cases = every array of length 0..5 (quick: 0..4 for the 5- and 7-value pools) over pools of integers/strings/mixed scalars with duplicates, nils and case variants through sort, sort_natural, uniq, reverse, compact, first, last, size, join and the jekyll sort; every array of length 0..4 (quick 0..3) over 8 one-/two-key objects (property present, missing, nil, false) through sort/sort_natural/map/where/compact with a property, where with 5 targets, uniq, reverse, first, last, size; the slice offset x length grid for lengths 0..6; concat of all pairs of arrays of length <= 2; 9 non-array inputs x 14 filters x 8 argument lists; random arrays of length <= 60 (3/4 of them longer than 20) over 8 pools (integers incl. i64 extremes, strings, int+string, mixed scalars with nil/bool/date, floats incl. NaN/inf, int+float, single-key objects for plain sort, heterogeneous objects for the property filters) each in 4 initial orders (ascending by encoding, descending, two shuffles); 180 shuffles of the D8 shape (24/40/60 alternating integers and strings); 16 fixed witnesses of comparators that remain inconsistent (i64 vs f64 beyond 2^53, date vs datetime with different offsets, arrays with incomparable members, objects with heterogeneous values). non-trivial = distinct (filter, input, arguments) whose observation is not an empty string",
        "explanation": "Lean theorems C14_* about the model of filters/array.rs, slice.rs, size (permutation for every comparator; sorted/stable/idempotent/nil-last under TotalPreorderOn and unconditionally for sort_natural; uniqueness of the stable sorted arrangement, which ties std's sort_by to the model's mergeSort wherever the comparator is consistent; the repaired comparator is a total preorder on all mixtures of integers|floats, strings, booleans, dates, nils; uniq/compact/concat/map/where/first/last/size/slice/join laws) + differential run: the executable spec (Spec/C14.lean) judges the implementation's observation on every case, the model must agree on every case whose comparator is a total preorder on the input (decided per case by totalPreorderOnB, proved exact)",
        "exhaustive": True,
        "assumptions": [
            "std's slice::sort_by is a stable sort whenever the comparator is a total preorder on the slice (then C14_stable_unique makes its result equal to the model's); on other comparators only 'permutation, no panic' is demanded of the implementation",
            "str::to_lowercase agrees with the driver's table on the generator's alphabet (ASCII, Latin-1, basic Cyrillic); the theorems hold for every lower-casing function",
            "HashMap clone preserves iteration order (the comparator of plain sort on multi-key objects looks at entry order, D12); results are compared up to object entry order",
        ],
        "trusted": ["Rust std slice::sort_by (stable on consistent comparators)"],
    },
    "C17": {
        "manifest_text": "Lean 4 theorems (29): an independent proleptic Gregorian calendar proved correct from first principles (civil <-> day-number round trip for all days, weekday, ordinal, %U/%W week numbers, ISO week date, offset arithmetic keeps the instant); eq/cmp of date-times are those of the instant regardless of offset; default print then parse returns the same local time, offset and instant (years -9999..9999, minute-granular offsets); the model of strftime.rs never panics for any format text, echoes unknown (incl. non-ASCII) directives verbatim, reports malformed formats as errors, prints every numeric directive as its field padded per flag/width and %L/%N as the leading digits of the 9-digit nanosecond (after the fix: commits). Tied to /repo by a differential run over boundary timestamps x directives x flags x widths, random formats, all accepted parse syntaxes, and a per-case comparison of the time crate's calendar fields with the Lean calendar.",
        "manifest_note": "Trusted: Lean kernel + allowed axioms, theorem statements, hand-written models (validated differentially). The time crate's own formatter/parser are modelled syntax-wise and compared on every run, not verified; alphabetic and composite directives are checked differentially only.",
        "technique": "Lean 4 proof (calendar arithmetic, directive equations) + differential correspondence incl. independent calendar cross-check",
        "design_ref": "DESIGN.md section 7 C17",
        "rule": "cases = boundary timestamps (1/7 Jan, 28/29 Feb, 1 Mar, 25..31 Dec of years 1, 1000, 9999, 1970..2040; every hour x every offset -12:00..+14:00 incl. :30/:45 and -00:30; sub-seconds 5 ms, 1 us, 1 ns, ...; plus years 0 and negative) x every directive x flag {none,-,_,0,^,#} x width {none,1,3,6,12}, the composite directives, %%, unknown ASCII and non-ASCII directives, E/O modifiers, colon forms, dangling % / width overflow, random concatenations over random instants; every accepted parser syntax with/without offset plus near misses; print/parse round-trips; eq/cmp pairs across offsets; date_in_tz. On every strftime case the time crate's calendar fields are compared with the independent Lean calendar. non-trivial = distinct inputs whose observation is not an empty output",
        "explanation": "Lean theorems C17_* : the independent calendar is correct from first principles (civil round-trip both ways for all days, weekday, ordinal, %U/%W, ISO week date), eq/cmp of date-times are those of the instant, strftime never panics for any format text, unknown directives are echoed, malformed formats are errors, numeric directives print their calendar field padded as documented, %L/%N print the leading digits of the 9-digit nanosecond, default print/parse round-trip; + differential run of the model (strftime.rs machine, Display/parse syntaxes, date/date_in_tz filters) against the real crates",
        "exhaustive": True,
        "assumptions": [
            "the `time` crate's format-description formatter/parser is external: its accepted syntaxes are modelled (Model/DateFmt.lean) and compared on every run, not verified",
            "round-trip law is claimed for offsets of whole minutes below 20 h (what the default format and the offset regex can express); second-granular offsets are exercised but only compared with the model",
            "wall-clock inputs (`now`, `today`) are never generated",
            "formats with a width above 24 combined with a real directive are not generated (output size is linear in the width)",
        ],
        "trusted": ["Rust `format!` padding semantics ({:0>w$}, {:04} on signed integers, {: >w$}) as transcribed in Model/Strftime.lean"],
    },
    "C13": {
        "manifest_text": "Lean 4 theorems (39) for all strings about the model of the string filters (after the fix: commits): append/prepend/case/newline_to_br/default/strip_newlines/join/size/first/last compute their documented function; strip = lstrip\u2218rstrip and removes exactly the White_Space prefix/suffix; join sep (split sep s) = s for every separator; replace/replace_first/remove scan semantics; truncate never exceeds max(limit, |ellipsis|) clusters and is a whole-cluster prefix plus ellipsis, for every grapheme segmentation; slice is the contiguous infix (drop from front or end, then take) of at most the requested length and never panics; the result of a filter chain is the left-to-right composition with error propagation; the independent reference implementations of Spec/C13 agree with the model. Tied to /repo by exhaustive runs over the property's 10-character alphabet (strings <= 4, arguments <= 2, integers -6..8), random strings <= 200 and chains of 1..4 filters through the real parser.",
        "manifest_note": "Trusted: Lean kernel + allowed axioms, theorem statements, hand-written filter models (validated differentially). Unicode case maps and grapheme segmentation are parameters shipped per case by the harness (std / unicode-segmentation); the context-sensitive final-sigma rule of to_lowercase is not modelled (sigma never generated).",
        "technique": "Lean 4 proof (algebraic laws by induction on strings) + exhaustive differential correspondence",
        "design_ref": "DESIGN.md section 7 C13",
        "rule": "cases = every stdlib string filter (append, prepend, upcase, downcase, capitalize, strip, lstrip, rstrip, strip_newlines, newline_to_br, replace, replace_first, remove, remove_first, split, join, truncate, truncatewords, slice, size, first, last, default) applied through the plugin API to all strings up to length 4 (arguments up to length 2, quick tier: one less) over {a, B, space, newline, tab, ',', '<', e-acute, U+0301, U+1F600}, every integer argument in [-6, 8], every arity 0..3, non-integer arguments for integer parameters, non-string inputs, random strings up to length 200 from a pool of case-special, whitespace, combining, ZWJ/flag/Hangul and 4-byte characters, the laws strip = lstrip after rstrip and split-then-join on pairs of observations, and chains of 1..4 filters rendered by the real parser against step-by-step application; non-trivial = distinct (filter, input, arguments) whose observed result is not an empty output",
        "explanation": "Lean theorems C13_* about the model of filters/string/*.rs, slice.rs, html.rs, array.rs, mod.rs and FilterChain::evaluate (split/join identity, strip = lstrip after rstrip, truncate bound for every grapheme segmentation, slice = drop/take infix of bounded length without panic, size/first/last in characters, chain = left-to-right composition) + differential run of the model and of an independent reference implementation / law predicates (Spec/C13.lean) against the real crate on the property's own enumeration",
        "exhaustive": True,
        "assumptions": [
            "Unicode data is external: per-character case maps (char::to_uppercase/to_lowercase) and the grapheme segmentation (unicode_segmentation) of the strings of each case are shipped by the harness from the implementation's own dependencies; theorems hold for every such table; the context-sensitive final-sigma rule of str::to_lowercase is not modelled (U+03A3/U+03C3/U+03C2 are never generated)",
            "a negative truncate/truncatewords limit means 'no limit' (length as usize), as pinned by the repository's unit tests unit_truncate_negative_length / unit_truncatewords_negative_length; the truncate bound is stated for the limit as the code sees it",
            "truncate counts the input and the ellipsis in characters and cuts in whole grapheme clusters (the only reading under which the repository's unit_truncate_unicode_codepoints_examples still passes once byte lengths are removed); the bound is in grapheme clusters",
            "string lengths below 2^63 (isize::MAX) in the slice theorems",
        ],
        "trusted": ["unicode_segmentation and std case-mapping tables as shipped per case; Rust str::split / str::replace searcher semantics as modelled by StrF.splitK (validated by the differential run)"],
    },
    "C12": {
        "manifest_text": "Lean 4 theorems (28) about a model of the serde bridge (ValueSerializer/ScalarSerializer, the untagged Scalar/Value deserializers incl. serde's Content buffering, serialize_as_i64 narrowing, JSON transport) and of the derive-generated object view: to_value(&v) is the identity on date-free marker-free values and preserves kind, render, source, to_kstr, the four state answers and equality; from_value and the JSON round trip are the identity on the stated well-formed domain (with counterexample theorems for every excluded point, replayed on the real code); an integer outside i64 is an error or a float, never another integer (all widths); the derived view of a struct equals its serde conversion and renders identically in templates. The agreement of the many Rust views (Value, ValueCow Owned/Borrowed, &T, Option, Vec, maps, derived structs, to_value, to_object, from_value, serde_json) with the single Lean definition of each observation is established by the differential run (up to 26 views per datum), not by a theorem.",
        "manifest_note": "Trusted: Lean kernel + allowed axioms, theorem statements, hand-written serde model (validated differentially against a recording Serializer). The time crate's text parsers are an oracle tabulated per string by the harness; f64 decimal text and serde_json are modelled at the level of serde's event tree. Partial: view agreement is differential only.",
        "technique": "Lean 4 proof (round-trip and narrowing laws by structural induction on values / serde trees) + differential correspondence across all views",
        "design_ref": "DESIGN.md section 7 C12",
        "rule": "cases = (a) every scalar of the value pool (ints at the i8..i64/2^53 boundaries, floats incl. -0/NaN/inf/subnormal, strings incl. numeric-, date- and marker-looking text, 9 date-times, 9 dates, the 4 State markers) alone, in a 1-array and in a single-key object, then random values of depth <= 4 (tame and wild streams, multi-key objects rebuilt 3x), each datum as one `views` line (14-26 views x 9 observations) plus one line per conversion (to_value, from_value, JSON text, serde_json::Value, recorded Serialize image, to_object/to_scalar); (b) instances of 12 derive(Serialize,Deserialize,ObjectView,ValueView) structs: derived view vs to_value vs to_object, typed round trip, templates with derived vs serde-converted globals; (c) a serde-only family (enums, tuples, newtypes, 128-bit, odd map keys) with u64/i64 boundary integers through to_value/to_object/to_scalar/JSON/typed round trip; non-trivial = distinct input whose observation is not an empty ok output",
        "explanation": "Lean theorems C12_* about the model of the serde side (ValueSerializer/ScalarSerializer/ObjectSerializer/MapKeySerializer, untagged Value/Scalar deserialisation, ValueDeserializer::deserialize_any, derive(ObjectView,ValueView)): exact image of to_value, the three round trips on precisely stated domains with counterexample theorems outside them, integer narrowing, derived view = serde conversion. The agreement of the many Rust ValueView impls (Value, ValueCow, &T, Option<T>, Vec<T>, maps, native scalars, derived structs) with the model's single definition of render/source/type_name/query_state/to_kstr/==/to_value is established by this differential run, not by a theorem (partial).",
        "exhaustive": False,
        "assumptions": [
            "partial: agreement of the Rust trait impls with the single Lean definition of each observation is differential (every view of every generated datum), not proved",
            "text parsers of the `time` crate behind friendly_date(_time)::deserialize are a parameter (TextOracle) of the model, universally quantified in the theorems; the harness tabulates them per string with the format descriptions copied from scalar/{date,datetime}.rs",
            "serde_json is modelled on the level of events (jsonOfSD): non-negative integers read back as u64, finite doubles read back exactly (harness enables serde_json's `float_roundtrip`; without it 30% of random doubles come back 1 ulp off), NaN/inf written as null",
            "serde's untagged-enum buffering (private Content type) and serde_derive's output for default attributes are modelled from their source (serde 1.0.203), and checked through the recorded Serialize image (`valsd`, `td` lines)",
            "objects are compared up to iteration order (HashMap); order-dependent text (render of multi-key objects) is checked against the order of the very instance that printed it",
        ],
        "trusted": ["recording serde::Serializer of the harness (harness/src/c12.rs) that transmits the serde data-model tree of a Rust datum"],
    },
    "C11": {
        "manifest_text": "Lean 4 theorems (30) about the model of value_eq / value_cmp / scalar_eq / scalar_cmp for all values: equality is symmetric (for marker-free values with distinct object keys) and reflexive (NaN-free), != is its negation, partial_cmp is dual under swapping, whenever two values are ordered <= / >= hold exactly when < / > or == does and equal values are never strictly ordered, integer/float equality up to 2^53, and the outcome of == and of every ordering operator is invariant under permutation of object entry lists at any depth (construction independence, for the repaired value_cmp); every excluded point has a counterexample theorem replayed on the real code. Tied to /repo by all ordered pairs (and triples in thorough) of an ~80-value pool through Value, ValueCow, ValueViewCmp and through templates, with multi-key objects built several times independently.",
        "manifest_note": "Trusted: Lean kernel + allowed axioms, theorem statements, hand-written value model (validated differentially). IEEE reading of doubles and the time crate's instant-based equality are modelled, not verified. Observations outside the property statement are recorded as counterexample theorems only (e.g. transitivity across date/date-time, `1 == true == 2`).",
        "technique": "Lean 4 proof (well-founded induction on values, Perm-invariance via canonical sorting) + exhaustive differential correspondence on the pool",
        "design_ref": "DESIGN.md section 7 C11",
        "rule": "cases = query_state of every pool value; ALL ordered pairs of the ~80-value pool of the property's quantifier text (nil, booleans, integers incl. 2^53, 2^53+1 and the i64 bounds, floats incl. +-0, 2^53, 2^63, infinities, NaN, strings, dates, date-times with the same instant in different offsets, empty/blank/truthy/default markers, arrays and single/multi-key objects nested two deep), each pair observed in both argument orders on the same two freshly built instances through Value, ValueViewCmp (two routes), ValueCow (Owned/Borrowed, all mixes, From<&Value>), ValueCow==Value, Value==ValueViewCmp, ScalarCow and Value==i64/f64/bool/&str/DateTime/Date; every pair involving a multi-key object built k times independently (fresh HashMap each, entries transmitted in that instance's iteration order); every ordered pair through a template (if == != < <= > >=, case/when, contains, uniq, sort: property); random recipes beyond the pool (arrays/objects of pool atoms, <= 6 keys, nested two deep, copies and one-leaf mutations); triples (quick: all same-kind scalar triples + 30000 random; thorough: all). non-trivial = distinct inputs",
        "explanation": "Lean theorems C11_* about the model of value_eq/value_cmp/scalar_eq/scalar_cmp (symmetry, reflexivity, != negation, duality, consistency of < <= > >= with partial_cmp and ==, int/float equality up to 2^53, invariance under permutation of object entry lists at any depth for the repaired value_cmp, transitivity inside a scalar kind, counterexamples for every excluded point) + differential run against the real crates; the executable laws of Spec/C11.lean are evaluated on what the implementation answered (specfail), the model's prediction is compared separately (diff)",
        "exhaustive": True,
        "assumptions": [
            "the theorems are about the repaired value_cmp (object entries compared in key order, patches/C11-object-cmp-sorted.diff); at the pinned commit the check reports VIOLATION law=construction-independent (defect D12) and every model/implementation difference is annotated as matching valueCmpOld, the model of the pinned code",
            "IEEE-754 reading of a double (Fl.toFV) and i64->f64 rounding (roundI64ToF64) are modelled on integers and compared with the hardware on the pool and on random recipes only",
            "date-times are transmitted as (local nanoseconds, offset); the time crate's OffsetDateTime ==/cmp (instant based) and replace_date are modelled, not verified",
        ],
        "trusted": ["std HashMap: distinct keys, get() finds the entry with an equal key (WFV hypothesis of the theorems)"],
    },
    "C15": {
        "manifest_text": "Lean 4 theorems (29) for all 64-bit operands and all doubles: on integer operands plus/minus/times/abs/at_least/at_most equal the mathematical result when it fits in 64 bits and otherwise continue in floating point (after the fix: commit), divided_by/modulo satisfy a = q*b + r with |r| < |b|, zero divisors are errors, no panic site is reachable, a float operand never takes the integer path and the result is the named IEEE operation (glue), floor/ceil/round are the neighbouring integers with ties away from zero for every double within the 64-bit range (on the exact rational reading of the bit pattern), numeric strings behave like the numbers they spell. Tied to /repo by a differential run of the model and of an independent executable spec on the property's boundary grid in all encodings plus random operands, floats compared by bit pattern.",
        "manifest_note": "Trusted: Lean kernel + allowed axioms, theorem statements, hand-written model of math.rs (validated differentially). IEEE + - x / and powi are parameters of the model (glue theorems only), instantiated with hardware doubles in the driver; str::parse::<f64> is modelled as correctly rounded and validated per case.",
        "technique": "Lean 4 proof (integer arithmetic with explicit i64 bounds, exact rational reading of doubles) + differential correspondence",
        "design_ref": "DESIGN.md section 7 C15",
        "rule": "cases = the property's quantifier: all pairs of the boundary set {0,+-1,+-2,+-3,+-7,10,+-2^31,+-2^62,MAX-1,MAX,MIN,MIN+1} (+ the multiplication boundary 3037000499/3037000500, +-(2^53+1), 2^31-1) in all 3x3 encodings (integer, numeric string, float) for the 7 binary filters and in 3 encodings for abs/ceil/floor/round; all pairs of k/8, |k|<=40 as floats (every .5 tie) for the 7 binary filters (+ strings/mixed on a sub-grid in quick, full in thorough); special doubles (+-0, +-inf, NaN, subnormal, MAX, +-2^63, 0.49999999999999994, 2^52+-0.5); round with 22 decimal-places arguments; non-numbers/arity; random 64-bit integers / doubles / numeric strings (25k quick, 600k thorough); a divided_by+modulo pair line for every integer pair; non-trivial = distinct input whose observation is not an empty output (all are)",
        "explanation": "Lean theorems C15_* about the model of filters/math.rs with the checked-arithmetic repair (int path exact-or-float, division identity, zero divisor, no panic site reachable, float glue, floor/ceil/round bounds on the semantic reading of doubles, numeric strings via parse::<i64>/parse::<f64> models) + differential run of model and of an independent executable spec (Spec/C15.lean: big-integer arithmetic, native IEEE doubles, defining property of fmod, rounding bounds, string-vs-number agreement) against the real crate; floats compared by bit pattern (all NaNs identified)",
        "exhaustive": True,
        "assumptions": [
            "IEEE + - x / and 10f64.powi(n) are external parameters of the model (FloatOps), instantiated in the driver with hardware doubles via Float.ofBits/toBits (powi by the compiler-builtins __powidf2 loop); theorems about the float path are glue theorems",
            "float % (fmod) has no native counterpart in Lean: the driver uses the exact integer model fmodBits, validated bit-for-bit against Rust's % and independently by the spec's defining property of fmod",
            "str::parse::<f64> is modelled as correctly-rounded decimal->binary64 (parseF64); validated on every string case, proved only for integer spellings",
            "ceil/floor/round convert integer inputs through f64 first (as the code does), so |n| > 2^53 loses precision and MAX-1 | ceil = MAX: outside the property's statement (floats only), recorded as an observation",
        ],
        "trusted": ["hardware IEEE-754 double arithmetic as exposed by Lean's Float (driver side) and by Rust (implementation side)"],
    },
    "C16": {
        "manifest_text": "Lean 4 theorems for all strings (28, incl. escape output in (Safe|Entity)*, unescape∘escape = id, escape_once idempotent / keeps existing entities / fixed on escape output, url_encode alphabet and shape, UTF-8 encode/decode round trip, url_decode∘url_encode = ok id, invalid decoded UTF-8 is an error, strip_html output has no complete <...> tag, is a subsequence of its input and leaves tag-free text unchanged, no filter can panic) about hand-written models of html.rs and url.rs (+ percent-encoding's table and from_utf8's validation), tied to /repo by exhaustive differential runs over the property's three alphabets and by evaluating the executable spec predicates on the implementation's own outputs.",
        "manifest_note": "Trusted: Lean kernel + allowed axioms (three 256-entry byte tables closed by decide +kernel), theorem statements, hand-written models (validated differentially). The regex engine (leftmost-first, lazy star, Unicode simple case folding), percent-encoding and core::str::from_utf8 are modelled from their sources and compared on every run, not verified.",
        "technique": "Lean 4 proof (algebraic laws / language membership by induction) + exhaustive differential correspondence",
        "design_ref": "DESIGN.md section 7 C16",
        "rule": "cases = every string up to length 5 (quick 4) over {< > & \" ' ; # a l t m p space e-acute} through escape, escape_once and escape_once twice; every string up to length 4 over {% + 2 F f space / e-acute emoji} through url_encode, url_decode(url_encode) and url_decode; every string up to length 6 (quick 5) over {< > ! - / s c r i p t a} through strip_html; token-level enumerations spelling all five entities and near-entities / percent escapes incl. overlong, surrogate and >U+10FFFF sequences / script, style, comment openers and closers in mixed case and with U+017F (up to 4 tokens, quick 3); the 'existing entity stays' law for every context pair up to length 2 (quick 1) x 5 entities; url_decode on every byte string of length <= 3 as %XX (quick: all of length <= 2, 20 lead bytes for length 3) and boundary 4-byte sequences, compared with the proved UTF-8 validator; the (?i) fold set of every letter position of the script/style regexes over all scalar values (quick: up to U+2FFF); random longer strings from all pools; non-string inputs and extra arguments; non-trivial = distinct inputs",
        "explanation": "Lean theorems C16_* about the models of html.rs (escape loop with its skip counter, nr_escaped, the four regex passes as leftmost-shortest scanners) and url.rs (percent-encoding set, PercentDecode, from_utf8 validation) + differential run of those models against the real filters, with the executable spec predicates of Spec/C16.lean (language membership, unescape, idempotence, alphabet, round trip, error iff invalid UTF-8, no complete tag) evaluated on the implementation's own outputs",
        "exhaustive": True,
        "assumptions": [
            "the regex crate implements leftmost-first matching with a lazy star and Unicode simple case folding; both are compared with the model on every run (exhaustive tag alphabet, fold scan over all scalar values), not assumed silently",
            "Strings cross the protocol as UTF-8; Rust `String` values are valid UTF-8 by type, so `List Char` is a faithful carrier",
        ],
        "trusted": ["percent-encoding 2.3.1 and core::str::from_utf8 are modelled from their sources (AsciiSet table, after_percent_sign, run_utf8_validation) and checked differentially, not verified"],
    },
    "C07": {
        "rule": "paths of length 1..2 exhaustively (quick; 3 in thorough) and guided random walks of length 3..5 over nested data (arrays of length 0..5 inside objects inside arrays; own `size`/`first`/`0` keys; non-ASCII strings), every step drawn from integer literals -7..6, i64::MIN/MAX, key literals incl. first/last/size and integer-like strings, variables holding indices/keys (incl. undefined, array-valued, boolean) and nested paths; literals: integers at the 64-bit boundaries, one past them, 19..24 digit numbers, random 64-bit sweep, explicit `+` and leading zeros, decimals with 1..6 fraction digits, strings in both quote styles over an alphabet with non-ASCII/combining/emoji/markup characters, keywords; non-trivial = distinct case with a non-empty result",
        "explanation": "Lean theorems C07_* (index law for all n and i; first/last/size; own key wins; stepwise resolution; a missing step is an error and never the find panic; output tag over found/missing path; decimal round-trip of every i64 through the digit printer and parse::<i64> model; out-of-range literals rejected; string literal content preserved; keywords) + differential run against the real crate",
        "exhaustive": False,
        "manifest_text": "Lean 4 theorems for all arrays, indices, objects, paths and all 64-bit integers: negative/positive index law with no wrap-around, first/last/size meaning with own-key precedence, a path resolves iff every step resolves (otherwise the failing lookup is an error, never nil/neighbour/panic) and the output tag prints exactly the found value, every i64 round-trips through its decimal literal, out-of-range integer literals are rejected, string literal contents are preserved, keywords denote themselves. Tied to /repo by a differential run on generated nested data and literal sweeps.",
        "manifest_note": "Trusted: Lean kernel + allowed axioms, theorem statements, hand-written model of find.rs/array/variable/expression and of the Literal grammar alternatives (validated differentially). Float literal conversion and printing (str::parse::<f64>, f64 Display) are external: the correspondence only checks that `{{ d }}` prints what Rust's own parse+Display gives. The pest grammar's tokenisation of the path syntax itself is exercised, not modelled (C01).",
        "technique": "Lean 4 proof (index arithmetic, induction over paths, digit round-trip by strong induction) + differential correspondence",
        "design_ref": "DESIGN.md section 7 C07",
    },
    "C06": {
        "rule": "every operator x every ordered pair of the ~30-value pool through variables, as literals and mixed; truthiness of every pool value (if and unless) and of undefined / nested-undefined paths; if/elsif chains of 1..4 arms under all truth assignments with and without else; unless/else; case/when with 1..4 arms, comma and `or` lists, duplicates and overlaps; and/or chains of length 1..4 in every connective pattern under all truth assignments (flat source, grouped by the parser under test and by the Lean model of parse_condition); random nested conditionals; non-trivial = distinct (template,data) with a non-empty result",
        "explanation": "Lean theorems C06_* about the model of if_block.rs / case_block.rs (exactly one branch, unless = negated if, elsif chains, case/when first match, truthiness table, operators as functions of valueEq/valueCmp, contains, empty/blank, precedence and associativity of and/or in the model of parse_condition, malformed conditions rejected) + differential run against the real crate, plus an independent truth-table spec for chains and and/or shapes",
        "exhaustive": True,
        "manifest_text": "Lean 4 theorems for all conditions, branches, values and stacks: a conditional renders exactly one branch (if/unless/elsif/case, first match wins, else otherwise, nothing otherwise), unless is the negation of if, truthiness = not nil and not false (stated with the one narrowing the code makes: the empty/blank marker literals are falsy), every operator is the stated function of the value model's equality/ordering, contains per operand kind, and the model of parse_condition groups `x or y and z` as `x or (y and z)` with left-associative chains. Tied to /repo by running the model and an independent truth-table spec against the real crate on the property's exhaustive enumeration (7 operators x 31^2 pairs x 3 forms, all truth assignments of chains <= 4, and/or patterns <= 4).",
        "manifest_note": "Trusted: Lean kernel + allowed axioms, theorem statements, hand-written model (validated differentially), harness/driver. valueEq/valueCmp themselves are the subject of C11. The general (arbitrary length) grouping theorem for parse_condition is proved for the shapes the property names (3-atom mixed shapes, homogeneous chains of 4), longer chains are covered by the correspondence.",
        "technique": "Lean 4 proof (decision logic stated outright) + differential correspondence",
        "design_ref": "DESIGN.md section 7 C06",
    },
    "C18": {
        "rule": "every valid operation sequence up to length 3 (quick) / 4 (thorough) over {push plain d, push sandbox d, push global, pop, assign-global k v, set-counter k v} with d over all 9 maps on {a,b} x {absent, scalar, object}, plus random sequences of length 4..6 over random bases; after EVERY operation the state is observed by try_get and get of all 8 paths of length 1..2, roots() and both counters; non-trivial = distinct sequences (all of them observe a non-empty state)",
        "explanation": "Lean theorems C18_* (refinement of try_get to an abstract stack-of-maps lookup; get = try_get with error, never the find panic; transparency; sandbox hides; set_global lands in the nearest global layer and is visible through plain scopes; pop restores; counters shared; roots exact) about the model of runtime/stack.rs + runtime.rs, and a differential run executing every operation sequence on the real frame types",
        "exhaustive": True,
        "manifest_text": "Lean 4 theorems proved for all stacks, paths, names and values (refinement of lookup to a stack of maps, agreement of failing/optional lookup incl. unreachability of the `find` panic, transparency, sandbox isolation, nearest-global assignment, pop restoration, shared counters, exact roots), about a hand-written model of the five frame kinds; tied to /repo by executing every operation sequence (<=3 quick, <=4 thorough, random to 6) on the real StackFrame/SandboxedStackFrame/GlobalFrame/IndexFrame types and comparing every observation with the model, plus checking the state-local laws directly on the implementation's observations.",
        "manifest_note": "Trusted: Lean kernel + allowed axioms, theorem statements, the hand-written frame model (validated differentially), harness/driver. Registers other than counters and frame names are not observed here (covered by C08/C09).",
        "technique": "Lean 4 proof (refinement to abstract stack of maps) + differential state-space exploration on the real runtime types",
        "design_ref": "DESIGN.md section 7 C18",
    },
    "C05": {
        "manifest_text": "Lean 4 theorems (C05_window: iter_array = drop/take/reverse for all arrays/offsets/limits; forloop/tablerow field equations for all i,n,cols; loop visiting order, continue/break semantics of the loop driver and of block bodies; ranges and collections) about a hand-written executable model of for_block.rs/template.rs, tied to /repo by a differential run of the model's interpreter and of an independent executable spec against the real crate on the property's full enumeration grid on every run.",
        "manifest_note": "Trusted: Lean kernel + allowed axioms (propext, Classical.choice, Quot.sound), theorem statements, hand-written model (validated differentially, not derived), harness/driver/protocol. The theorem tying the whole-template render to the spec string is not proved; spec, model and implementation are compared case by case instead.",
        "technique": "Lean 4 proof (induction / algebraic laws) + differential correspondence model-vs-implementation",
        "design_ref": "DESIGN.md section 7 C05",
        "rule": "cases = the property's grid (length 0..6 x offset {none,0..8} x limit {none,0..8} x reversed x cols {none,1..4}; arrays, ranges, tablerow), degenerate collections, break/continue at every index of two nested loops, random larger instances; non-trivial = distinct (template,data) whose observed result is not an empty output",
        "explanation": "Lean theorems C05_* about the model of for_block.rs/template.rs (window = drop/take, forloop/tablerow fields, visiting order, break/continue) + differential run of the model's interpreter against the real crate on the property's own enumeration",
        "exhaustive": True,
        "assumptions": ["loop bodies in the correspondence print the item and every forloop/tablerow field, so a wrong element, order or field changes the output"],
    },
}
