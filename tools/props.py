"""Per-property configuration and case-line helpers for ./check."""
import json, os, re

ROOT = os.path.dirname(os.path.dirname(os.path.abspath(__file__)))

TRUSTED_BASE = [
    "Lean 4.33.0 kernel (thorough tier: re-checked by leanchecker)",
    "axioms allowed in property theorems: propext, Classical.choice, Quot.sound (audited with #print axioms on every run); no sorry/admit/native_decide/bv_decide/own axioms (source lint on every run)",
    "statements of the theorems in lean/LiquidModel/Props/<id>.lean",
    "correspondence machinery: Rust harness (harness/), generators, hex line protocol, Lean decoder (Drv/Codec.lean), this script",
    "hand-written Lean model of the Rust code (lean/LiquidModel/Model/*.lean); tie to /repo is the differential run of this check, rebuilt from /repo's working tree",
]

def unhex(tok):
    try:
        return bytes.fromhex(tok).decode("utf-8", "replace")
    except ValueError:
        return "<bad hex>"

def describe_case(pid, line):
    """Split a case line into input / observation / readable text."""
    text = None
    data = None
    m = re.search(r" #x([0-9a-f]*)(?::x([0-9a-f]*))?$", line)
    body = line
    if m:
        text = unhex(m.group(1)); body = line[:m.start()]
        if m.group(2) is not None:
            data = unhex(m.group(2))
    toks = body.split(" ")
    kind = (toks[1] if len(toks) > 1 else toks[0]).split(":")[0]
    # by convention the observation is the last two tokens (tag, payload) for template ops;
    # other ops put it after a literal `=>` token
    if "=>" in toks:
        i = toks.index("=>")
        inp, obs = " ".join(toks[:i]), toks[i + 1:]
    else:
        inp, obs = " ".join(toks[:-2]), toks[-2:]
    obs_tag = obs[0] if obs else "?"
    obs_full = " ".join(obs)
    if len(obs) == 2 and obs[1].startswith("x"):
        obs_full = "%s %r" % (obs[0], unhex(obs[1][1:]))
    nontrivial = not (obs_tag == "ok" and len(obs) == 2 and obs[1] == "x")
    return {"kind": toks[0] + ":" + kind, "input": inp, "obs": obs_tag, "obs_full": obs_full, "text": text, "data": data, "nontrivial": nontrivial}

def sample(pid, info, driver_line):
    return {"kind": info["kind"], "input": info["text"] if info["text"] is not None else info["input"][:300], "data": info.get("data"),
            "implementation": info["obs_full"][:300], "model_verdict": driver_line[:120]}

def load_known(pid):
    f = os.path.join(ROOT, "known_findings.json")
    if not os.path.exists(f):
        return []
    return [k for k in json.load(open(f))["findings"] if k["property"] == pid and k["status"] == "open"]

def match_known(known, pid, info, driver_line):
    for k in known:
        if k.get("input") is not None and k["input"] == info["input"]:
            return k
        if k.get("text") is not None and info.get("text") == k["text"] and k.get("kind", info["kind"]) == info["kind"]:
            return k
    return None

def oracle_fails(pid, rec):
    """Property oracle on the implementation's observation, independent of the model: panics, hangs
    and invalid UTF-8 are violations of every property that renders or parses."""
    return rec["info"]["obs"] in ("PANIC", "HANG", "BADUTF8")

PROPS = {
    "C05": {
        "rule": "cases = the property's grid (length 0..6 x offset {none,0..8} x limit {none,0..8} x reversed x cols {none,1..4}; arrays, ranges, tablerow), degenerate collections, break/continue at every index of two nested loops, random larger instances; non-trivial = distinct (template,data) whose observed result is not an empty output",
        "explanation": "Lean theorems C05_* about the model of for_block.rs/template.rs (window = drop/take, forloop/tablerow fields, visiting order, break/continue) + differential run of the model's interpreter against the real crate on the property's own enumeration",
        "exhaustive": True,
        "assumptions": ["loop bodies in the correspondence print the item and every forloop/tablerow field, so a wrong element, order or field changes the output"],
    },
}
